// C01 - playable moves are exactly the legal moves of chess.
package c01

import (
	"bytes"
	"encoding/json"
	"fmt"
	"io"
	"os"
	"strconv"
	"strings"
	"testing"

	"github.com/paulsonkoly/chess-3/board"
	"github.com/paulsonkoly/chess-3/chess"
	"github.com/paulsonkoly/chess-3/debug"
	"github.com/paulsonkoly/chess-3/move"
	"github.com/paulsonkoly/chess-3/uci"
	"pgregory.net/rapid"

	"verif/eng"
	"verif/evid"
	"verif/gen"
	"verif/refchess"
)

// Case is a root position and a move list; the check compares move sets at every position along it.
type Case struct {
	FEN    string   `json:"fen"`
	Moves  []string `json:"moves"`
	Direct bool     `json:"direct,omitempty"` // board assembled field by field instead of parsed
	Every  int      `json:"every,omitempty"`  // compare only at every n-th position (long games) and at the end
}

var ms = move.NewStore()

// compare checks the playable set of b against the legal set of p.
func compare(b *board.Board, p *refchess.Pos, legal []refchess.Move) string {
	play := eng.Playable(ms, b)
	want := make([]uint16, len(legal))
	for i, m := range legal {
		want[i] = m.Enc()
	}
	onlyE, onlyR, dup := eng.SetDiff(play, want)
	if len(dup) > 0 {
		return fmt.Sprintf("playable move emitted twice: %v in %s", eng.Names(dup), p.FEN())
	}
	if len(onlyE) > 0 || len(onlyR) > 0 {
		return fmt.Sprintf("in %s: engine-only %v, missing %v", p.FEN(), eng.Names(onlyE), eng.Names(onlyR))
	}
	// the whole generated frame must not contain an encoding twice either
	seen := map[move.Move]bool{}
	for _, m := range eng.Generated(ms, b) {
		if seen[m] {
			return fmt.Sprintf("generator emitted %v twice in %s", m, p.FEN())
		}
		seen[m] = true
	}
	return ""
}

func classify(rec *evid.Rec, p *refchess.Pos, legal []refchess.Move) {
	pseudo := p.Pseudo()
	nt := len(pseudo) != len(legal)
	if nt {
		rec.Class("has_illegal_pseudo")
	}
	if p.InCheck(p.White) {
		rec.Class("in_check")
		if len(p.AttackersOf(p.KingSq(p.White), !p.White)) > 1 {
			rec.Class("double_check")
		}
	}
	if len(legal) == 0 {
		rec.Class("terminal")
	}
	var castle, ep, promo bool
	for _, m := range legal {
		castle = castle || p.IsCastle(m)
		ep = ep || p.IsEP(m)
		promo = promo || m.Promo != 0
	}
	if castle {
		rec.Class("castle_legal")
	}
	if ep {
		rec.Class("ep_legal")
	}
	if promo {
		rec.Class("promo_legal")
	}
	epIllegal := false
	for _, m := range pseudo {
		if p.IsEP(m) {
			n := p.Make(m)
			if n.InCheck(p.White) {
				epIllegal = true
			}
		}
	}
	if epIllegal {
		rec.Class("ep_pseudo_illegal")
	}
	if p.EP >= 0 && !ep {
		rec.Class("ep_target_not_capturable")
	}
	if nt || castle || ep || promo || epIllegal {
		f := p.FEN()
		rec.NT(evid.HS(f[:strings.LastIndex(f[:strings.LastIndex(f, " ")], " ")]))
	}
}

// checkCase replays c on the engine and the reference, comparing at every position.
func checkCase(c Case, rec *evid.Rec) (err error) {
	defer func() {
		if r := recover(); r != nil {
			err = fmt.Errorf("panic while replaying %s %v: %v", c.FEN, c.Moves, r)
		}
	}()
	p, err := refchess.ParseFEN(c.FEN)
	if err != nil {
		return fmt.Errorf("bad case fen: %v", err)
	}
	var b *board.Board
	if c.Direct {
		b = eng.Direct(&p)
	} else if b, err = eng.FromRef(&p); err != nil {
		return fmt.Errorf("engine rejects valid FEN %q: %v", c.FEN, err)
	}
	for i := 0; ; i++ {
		if c.Every > 1 && i%c.Every != 0 && i < len(c.Moves) && i < len(c.Moves)-8 {
			m, err := refchess.ParseMove(c.Moves[i])
			if err != nil {
				return err
			}
			b.MakeMove(eng.Enc(m))
			p = p.Make(m)
			continue
		}
		legal := p.Legal()
		if rec != nil {
			rec.Eval(1)
			classify(rec, &p, legal)
			if p.Half > 127 {
				rec.Class("halfmove_clock>127")
			}
		}
		if d := compare(b, &p, legal); d != "" {
			return fmt.Errorf("after %v: %s", c.Moves[:i], d)
		}
		if i%3 == 0 && p.Half <= 100 { // the same position loaded afresh from text, raw and normalised en-passant field
			for _, q := range []refchess.Pos{p, p.NormEP()} {
				fb, err := eng.FromRef(&q)
				if err != nil {
					return fmt.Errorf("engine rejects valid FEN %q: %v", q.FEN(), err)
				}
				if d := compare(fb, &q, legal); d != "" {
					return fmt.Errorf("loaded from FEN: %s", d)
				}
				if q.EP == p.EP {
					break
				}
			}
		}
		if i >= len(c.Moves) {
			return nil
		}
		m, err := refchess.ParseMove(c.Moves[i])
		if err != nil {
			return err
		}
		b.MakeMove(eng.Enc(m))
		p = p.Make(m)
	}
}

func playoutProp(rec *evid.Rec) func(t *rapid.T) {
	return func(t *rapid.T) {
		root, label := gen.Root(t)
		c := Case{}
		// en-passant decision points reached by PLAYING the double push (not loaded from FEN)
		if gen.Chance(t, 1, 8, "epParent") {
			var pp refchess.Pos
			var pm refchess.Move
			ok, name := false, ""
			if gen.Chance(t, 1, 2, "twoOnePinned") {
				pp, pm, ok = gen.EPTwoOnePinned(t)
				name = "ep_two_capturers_one_pinned"
			} else {
				pp, pm, name, ok = gen.EPMotif(t)
			}
			if ok {
				if gen.Chance(t, 1, 2, "mirror") {
					pp, pm = gen.MirrorColors(pp), gen.MirrorMove(pm)
				}
				c.FEN, c.Moves = pp.FEN(), []string{pm.String()}
				root, label = pp.Make(pm), "parent_"+name
			}
		}
		rec.Class("root_" + label)
		if c.FEN == "" {
			c.FEN = root.FEN()
		}
		gen.Playout(t, root, 40, func(ply int, p *refchess.Pos, legal []refchess.Move, m refchess.Move) bool {
			c.Moves = append(c.Moves, m.String())
			return true
		})
		if rec.WantSample(label) {
			rec.Sample(label, c)
		}
		if err := checkCase(c, rec); err != nil {
			rec.Fail("playout", err.Error(), c)
			t.Fatalf("%v", err)
		}
	}
}

// perftProp compares debug.Perft with the reference perft at depth 1..2 (3 for small positions).
func perftProp(rec *evid.Rec) func(t *rapid.T) {
	return func(t *rapid.T) {
		root, label := gen.Root(t)
		end := gen.Playout(t, root, 12, nil)
		if err := perftCase(Case{FEN: end.FEN()}, rec); err != nil {
			rec.Fail("perft", err.Error(), Case{FEN: end.FEN()})
			t.Fatalf("%v", err)
		}
		rec.Class("perft_" + label)
	}
}

func perftCase(c Case, rec *evid.Rec) error {
	p, err := refchess.ParseFEN(c.FEN)
	if err != nil {
		return err
	}
	b, err := eng.FromRef(&p)
	if err != nil {
		return fmt.Errorf("engine rejects valid FEN %q: %v", c.FEN, err)
	}
	for d := 1; d <= 2; d++ {
		want := p.Perft(d)
		if got := debug.Perft(b, chess.Depth(d), false); got != want {
			return fmt.Errorf("perft(%d) of %s: engine %d reference %d", d, c.FEN, got, want)
		}
		if rec != nil {
			rec.Eval(1)
			rec.NT(evid.H("perft", c.FEN, d))
		}
	}
	return nil
}

// table3 enumerates every valid K+X v K position (X of either colour, either side to move).
func table3(rec *evid.Rec) {
	shard, n := evid.Shard()
	for wk := 0; wk < 64; wk++ {
		if wk%n != shard {
			continue
		}
		for bk := 0; bk < 64; bk++ {
			if bk == wk {
				continue
			}
			for x := 0; x < 64; x++ {
				if x == wk || x == bk {
					continue
				}
				for k := int8(refchess.Pawn); k <= refchess.Queen; k++ {
					for _, col := range []int8{1, -1} {
						for _, white := range []bool{true, false} {
							var p refchess.Pos
							p.Sq[wk], p.Sq[bk], p.Sq[x] = refchess.King, -refchess.King, k*col
							p.White, p.EP, p.Full = white, -1, 1
							if p.Valid() != nil {
								continue
							}
							legal := p.Legal()
							rec.Eval(1)
							b := eng.Direct(&p)
							if d := compare(b, &p, legal); d != "" {
								rec.Violate("table3", d, Case{FEN: p.FEN(), Direct: true})
								return
							}
							if len(legal) != len(p.Pseudo()) {
								rec.NT(evid.HS(p.FEN()))
								rec.Class("table3_has_illegal_pseudo")
							}
							rec.Class("table3")
						}
					}
				}
			}
		}
	}
	rec.Exhaustive("all valid K+X v K positions (X in PNBRQ of either colour, either side to move)")
}

// uciPerft runs `perft 2` through the real driver for a few positions.
func uciPerft(rec *evid.Rec) {
	roots := append(append([]refchess.Pos{refchess.MustFEN(gen.StartFEN)}, gen.BenchRoots()...), gen.SuiteRoots()...)
	shard, n := evid.Shard()
	for i, p := range roots {
		if i%n != shard || i >= 3*n {
			continue
		}
		if err := uciPerftCase(Case{FEN: p.FEN()}); err != nil {
			rec.Violate("uci_perft", err.Error(), Case{FEN: p.FEN()})
			return
		}
		rec.Eval(1)
		rec.Class("uci_perft")
	}
}

func uciPerftCase(c Case) error {
	p, err := refchess.ParseFEN(c.FEN)
	if err != nil {
		return err
	}
	// the split lines go to the process' stdout; silence them for the duration
	old := os.Stdout
	devnull, _ := os.OpenFile(os.DevNull, os.O_WRONLY, 0)
	os.Stdout = devnull
	var out bytes.Buffer
	in := strings.NewReader("position fen " + c.FEN + "\nperft 2\nquit\n")
	uci.NewDriver(uci.WithInput(in), uci.WithOutput(&out), uci.WithError(io.Discard)).Run()
	os.Stdout = old
	devnull.Close()
	lines := strings.Split(strings.TrimSpace(out.String()), "\n")
	// the total is the last number of the last line that is not an info line ("123", "Nodes searched: 123", ...)
	got, err := 0, fmt.Errorf("no total")
	for i := len(lines) - 1; i >= 0 && err != nil; i-- {
		fs := strings.Fields(lines[i])
		if len(fs) == 0 || fs[0] == "info" {
			continue
		}
		got, err = strconv.Atoi(fs[len(fs)-1])
		break
	}
	if err != nil {
		return fmt.Errorf("uci perft output not understood: %q", out.String())
	}
	if want := p.Perft(2); got != want {
		return fmt.Errorf("uci `perft 2` on %s printed %d, reference %d", c.FEN, got, want)
	}
	return nil
}

// tables: castling table, en-passant table (the double push is PLAYED on the engine board), and in the
// thorough tier complete 4-man classes.
func tables(rec *evid.Rec) bool {
	shard, n := evid.Shard()
	black := []int8{-refchess.Queen, -refchess.Rook, -refchess.Bishop, -refchess.Knight, -refchess.Pawn}
	visit := func(label string) func(p *refchess.Pos) bool {
		return func(p *refchess.Pos) bool {
			legal := p.Legal()
			rec.Eval(1)
			b := eng.Direct(p)
			if d := compare(b, p, legal); d != "" {
				rec.Violate(label, d, Case{FEN: p.FEN(), Direct: true})
				return false
			}
			castle := false
			for _, m := range legal {
				castle = castle || p.IsCastle(m)
			}
			if label == "castle_table" {
				if castle {
					rec.Class("castle_table_castle_legal")
				} else {
					rec.Class("castle_table_no_castle")
				}
				rec.NT(evid.HS(p.FEN()))
			} else if len(legal) != len(p.Pseudo()) {
				rec.NT(evid.HS(p.FEN()))
			}
			return true
		}
	}
	if !gen.CastleTable(black, false, shard, n, visit("castle_table")) {
		return false
	}
	sl, of := shard, n
	if !evid.Thorough() {
		of, sl = 4*n, 4*shard+int(evid.Seed()%4)
	}
	if !gen.CastleTable(black, true, sl, of, visit("castle_table")) {
		return false
	}
	rec.Exhaustive("castling table: white Ke1 + Ra1/Rh1 with rights v black king + one black piece anywhere (complete); + two black pieces (complete in thorough, 1/4 slice in quick)")
	sl, of = shard, n
	if !evid.Thorough() {
		of, sl = 4*n, 4*shard+int(evid.Seed()/4%4)
	}
	ok := gen.EPTable(sl, of, func(parent *refchess.Pos, push refchess.Move) bool {
		b := eng.Direct(parent)
		b.MakeMove(eng.Enc(push))
		succ := parent.Make(push)
		legal := succ.Legal()
		rec.Eval(1)
		if d := compare(b, &succ, legal); d != "" {
			rec.Violate("ep_table", d, Case{FEN: parent.FEN(), Moves: []string{push.String()}})
			return false
		}
		ep := false
		for _, m := range legal {
			ep = ep || succ.IsEP(m)
		}
		if ep {
			rec.Class("ep_table_capture_legal")
		} else {
			rec.Class("ep_table_capture_not_legal")
		}
		rec.NT(evid.H("ept", parent.FEN()))
		return true
	})
	if !ok {
		return false
	}
	if evid.Thorough() {
		rec.Exhaustive("en-passant table: pawn on 2nd rank, 1-2 enemy pawns beside its 4th-rank square, both kings and one line piece of either colour anywhere, push played on the engine board (complete)")
		classes := [][]int8{{refchess.Queen, -refchess.Rook}, {refchess.Rook, -refchess.Bishop}, {refchess.Pawn, -refchess.Pawn}, {refchess.Queen, -refchess.Pawn}, {refchess.Rook, -refchess.Knight}, {refchess.Bishop, refchess.Knight}, {refchess.Pawn, refchess.Pawn}, {-refchess.Queen, refchess.Rook}, {-refchess.Pawn, -refchess.Pawn}, {refchess.Rook, -refchess.Rook}}
		for _, cl := range classes {
			if !gen.Enumerate(cl, shard, n, visit("table4")) {
				return false
			}
			rec.Class("table4_class_done")
		}
		rec.Exhaustive("4-man classes KQvKR KRvKB KPvKP KQvKP KRvKN KBNvK KPPvK KRvKQ KvKPP KRvKR complete")
	}
	return true
}

func TestC01(t *testing.T) {
	evid.Main(t, "C01", func(rec *evid.Rec) {
		if err := refchess.SelfTest(gen.RepoDir()+"/debug/standard.epd", 2); err != nil {
			fmt.Println("INFRA-ERROR", err)
			os.Exit(2)
		}
		rec.Rule("rapid playouts (<=40 plies) from startpos / perft-suite / bench / synthetic / motif roots, every position along the way compared as a move SET with the reference rules (carried board, and re-loaded from FEN with raw and normalised en-passant field); complete K+X v K table; perft(1..2) vs reference; non-trivial = some pseudo-legal move is illegal, or a castle / en-passant / promotion is legal, or an en-passant capture is pseudo-legal but illegal; distinct by placement+stm+rights+ep")
		rec.Assume("reference rules implementation verif/refchess (validated against published perft numbers at start of every run)")
		rec.Assume("input domain: valid positions as defined in the property; clocks 0..100")
		rec.Rapid(t, "playout", evid.Pick(40000, 600000), playoutProp(rec))
		rec.Rapid(t, "long_game", evid.Pick(1500, 20000), func(t *rapid.T) {
			// long, mostly reversible games: histories of 100..260 plies, halfmove clocks beyond 100 and 127
			root, label := gen.Root(t)
			if gen.Chance(t, 1, 2, "startpos") {
				root, label = refchess.MustFEN(gen.StartFEN), "startpos"
			}
			root.Half = 0
			ms, _ := gen.LongShuffle(t, root, 100, 260)
			c := Case{FEN: root.FEN(), Every: 16}
			for _, m := range ms {
				c.Moves = append(c.Moves, m.String())
			}
			rec.Class("long_game_" + label)
			if err := checkCase(c, rec); err != nil {
				rec.Fail("long_game", err.Error(), c)
				t.Fatalf("%v", err)
			}
		})
		rec.Rapid(t, "perft", evid.Pick(8000, 100000), perftProp(rec))
		table3(rec)
		if !tables(rec) {
			return
		}
		uciPerft(rec)
	}, func(check string, raw json.RawMessage) error {
		var c Case
		if err := json.Unmarshal(raw, &c); err != nil {
			return err
		}
		switch check {
		case "perft":
			return perftCase(c, nil)
		case "uci_perft":
			return uciPerftCase(c)
		}
		return checkCase(c, nil)
	})
}
