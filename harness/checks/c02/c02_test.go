// C02 - playing a move produces the successor position the rules prescribe.
package c02

import (
	"encoding/json"
	"fmt"
	"os"
	"strings"
	"testing"

	"github.com/paulsonkoly/chess-3/board"
	"pgregory.net/rapid"

	"verif/eng"
	"verif/evid"
	"verif/gen"
	"verif/refchess"
)

// Case: from FEN play Moves; after each move (and for every legal alternative at each position) compare the successor.
type Case struct {
	FEN   string   `json:"fen"`
	Moves []string `json:"moves"`
	UCI   bool     `json:"uci,omitempty"`
	// Before: conforming position / ucinewgame lines sent on the same driver ahead of the session (gen.EarlierPositions)
	Before []string `json:"before,omitempty"`
	Start bool     `json:"startpos,omitempty"`
	// Prefixes: position commands with these shorter move lists are sent first (as a GUI does during a game),
	// NewGame[i] puts a ucinewgame in front of the i-th command (the last entry: in front of the final one)
	Prefixes []int  `json:"prefixes,omitempty"`
	NewGame  []bool `json:"newgame,omitempty"`
}

func kindAt(p *refchess.Pos, sq int) int {
	c := p.Sq[sq]
	if c < 0 {
		c = -c
	}
	return int(c)
}

// classify labels the (position, move) pair and reports whether it is non-trivial.
func classify(rec *evid.Rec, p *refchess.Pos, m refchess.Move, succ *refchess.Pos) bool {
	nt := false
	mark := func(l string) {
		nt = true
		if rec != nil {
			rec.Class(l)
		}
	}
	if p.IsEP(m) {
		mark("en_passant")
	} else if p.IsCapture(m) {
		mark("capture")
	}
	if p.IsCastle(m) {
		mark("castle")
	}
	if m.Promo != 0 {
		mark("promotion")
	}
	if p.Castle != succ.Castle {
		mark("rights_change")
		if p.IsCapture(m) && (m.To == 0 || m.To == 7 || m.To == 56 || m.To == 63) {
			mark("rights_lost_by_capture_on_corner")
		}
	}
	if succ.EP >= 0 { // raw target present: a double push
		f, r := m.To%8, m.To/8
		beside := false
		for _, df := range []int{-1, 1} {
			if f+df >= 0 && f+df < 8 {
				c := p.Sq[r*8+f+df]
				if kindAt(p, r*8+f+df) == refchess.Pawn && (c > 0) != p.White {
					beside = true
				}
			}
		}
		if beside {
			mark("double_push_beside_enemy_pawn")
			if succ.EPCapturable() {
				mark("ep_target_recorded")
			} else {
				mark("ep_target_suppressed")
				// why: is the mover's push discovering a check through the origin square?
				q := *succ
				q.Sq[m.From] = sign(p.White) // pretend the origin is still occupied
				if succ.InCheck(succ.White) && !q.InCheck(q.White) {
					mark("ep_suppressed_push_discovers_check_through_origin")
				}
			}
		}
	}
	return nt
}

func sign(white bool) int8 {
	if white {
		return refchess.Pawn
	}
	return -refchess.Pawn
}

// successorDiff compares the engine board after the move with the reference successor (engine en-passant convention).
func successorDiff(b *board.Board, succ *refchess.Pos) string {
	want := succ.NormEP()
	if d := eng.SameAsRef(b, &want); d != "" {
		return d
	}
	if got := b.FEN(); got != want.FEN() {
		return fmt.Sprintf("FEN() prints %q, reference %q", got, want.FEN())
	}
	return ""
}

func checkCase(c Case, rec *evid.Rec) error {
	if c.UCI {
		return checkUCI(c, rec)
	}
	p, err := refchess.ParseFEN(c.FEN)
	if err != nil {
		return err
	}
	b, err := eng.FromRef(&p)
	if err != nil {
		return fmt.Errorf("engine rejects valid FEN %q: %v", c.FEN, err)
	}
	for i := 0; ; i++ {
		// every legal move of this position: make, compare, undo
		for _, m := range p.Legal() {
			succ := p.Make(m)
			r := b.MakeMove(eng.Enc(m))
			d := successorDiff(b, &succ)
			b.UndoMove(eng.Enc(m), r)
			if rec != nil {
				rec.Eval(1)
				if classify(rec, &p, m, &succ) {
					f := p.FEN()
					rec.NT(evid.H(f[:strings.LastIndex(f, " ")], m))
				}
			}
			if d != "" {
				return fmt.Errorf("%s after %v then %v: %s", c.FEN, c.Moves[:i], m, d)
			}
		}
		if i >= len(c.Moves) {
			return nil
		}
		m, err := refchess.ParseMove(c.Moves[i])
		if err != nil {
			return err
		}
		p = p.Make(m)
		b.MakeMove(eng.Enc(m))
		if d := successorDiff(b, &p); d != "" { // chain: errors must not accumulate either
			return fmt.Errorf("%s after %v: %s", c.FEN, c.Moves[:i+1], d)
		}
	}
}

// checkUCI sends `position fen F moves ...` (or startpos) and reads the position back with `fen`.
func checkUCI(c Case, rec *evid.Rec) error {
	p, err := refchess.ParseFEN(c.FEN)
	if err != nil {
		return err
	}
	cmd := "position fen " + c.FEN
	if c.Start {
		cmd = "position startpos"
	}
	if len(c.Moves) > 0 {
		cmd += " moves " + strings.Join(c.Moves, " ")
	}
	for _, ms := range c.Moves {
		m, err := refchess.ParseMove(ms)
		if err != nil {
			return err
		}
		p = p.Make(m)
	}
	want := p
	if len(c.Moves) > 0 {
		want = p.NormEP()
	}
	lines := append([]string{}, c.Before...)
	var wantEach []string // what `fen` must print after each earlier position command of the session
	base := strings.SplitN(cmd, " moves ", 2)[0]
	for i, k := range c.Prefixes {
		if k < 0 || k > len(c.Moves) {
			continue
		}
		if i < len(c.NewGame) && c.NewGame[i] {
			lines = append(lines, "ucinewgame")
		}
		pc := base
		if k > 0 {
			pc += " moves " + strings.Join(c.Moves[:k], " ")
		}
		lines = append(lines, pc, "fen")
		q, _ := refchess.ParseFEN(c.FEN)
		for _, ms := range c.Moves[:k] {
			m, _ := refchess.ParseMove(ms)
			q = q.Make(m)
		}
		if k > 0 {
			q = q.NormEP()
		}
		wantEach = append(wantEach, q.FEN())
	}
	if n := len(c.Prefixes); n < len(c.NewGame) && c.NewGame[n] {
		lines = append(lines, "ucinewgame")
	}
	out, errOut := eng.UCI(append(lines, cmd, "fen"))
	got := eng.LastFEN(out)
	outLines := eng.FENLines(out)
	for i, w := range wantEach {
		if i >= len(outLines) || outLines[i] != w {
			g := ""
			if i < len(outLines) {
				g = outLines[i]
			}
			return fmt.Errorf("session %v: after position command %d `fen` printed %q, reference %q (stderr %q)", lines, i, g, w, errOut)
		}
	}
	if rec != nil {
		rec.Eval(1)
		rec.Class("uci_session")
		if len(c.Moves) > 0 {
			rec.NT(evid.H("uci", c.FEN, c.Moves))
		}
	}
	if got != want.FEN() {
		return fmt.Errorf("%q then `fen` printed %q, reference %q (stderr %q)", cmd, got, want.FEN(), errOut)
	}
	return nil
}

func genCase(t *rapid.T, rec *evid.Rec, maxPlies int) Case {
	var root refchess.Pos
	var label string
	if gen.Chance(t, 1, 4, "epParent") {
		if p, _, ok := gen.EPTwoOnePinned(t); ok && gen.Chance(t, 1, 3, "twoOnePinned") {
			root, label = p, "parent_ep_two_capturers_one_pinned"
			if gen.Chance(t, 1, 2, "mirror") {
				root = gen.MirrorColors(root)
			}
		} else if p, _, name, ok := gen.EPMotif(t); ok {
			root, label = p, "parent_"+name
			if gen.Chance(t, 1, 2, "mirror") {
				root = gen.MirrorColors(root)
			}
		}
	}
	if label == "" {
		root, label = gen.Root(t)
	}
	if rec != nil {
		rec.Class("root_" + label)
	}
	c := Case{FEN: root.FEN()}
	gen.Playout(t, root, maxPlies, func(ply int, p *refchess.Pos, legal []refchess.Move, m refchess.Move) bool {
		c.Moves = append(c.Moves, m.String())
		return true
	})
	return c
}

func TestC02(t *testing.T) {
	evid.Main(t, "C02", func(rec *evid.Rec) {
		if err := refchess.SelfTest(gen.RepoDir()+"/debug/standard.epd", 2); err != nil {
			fmt.Println("INFRA-ERROR", err)
			os.Exit(2)
		}
		rec.Rule("rapid playouts from suite/bench/synthetic/motif roots and en-passant parent constructions; at every position EVERY legal move is made, the successor compared field by field (placement, side, rights, en-passant target iff a legal en-passant capture exists, halfmove clock, fullmove number, FEN text) with the reference successor, and undone; the chosen move is kept (chains). UCI leg: `position [fen F|startpos] moves ...` + `fen`, incl. sessions of several position commands and whole games of 850..1500 (thorough ..9000) plies in one command line (halfmove clock kept <= 100). Non-trivial = capture, castle, en passant, promotion, rights change, or double push beside an enemy pawn; distinct by (position, move)")
		rec.Assume("reference rules implementation verif/refchess incl. its en-passant capturability test (self-tested against published perft numbers)")
		rec.Rapid(t, "successor", evid.Pick(40000, 4000000), func(t *rapid.T) {
			c := genCase(t, rec, 30)
			if rec.WantSample("successor") {
				rec.Sample("successor", c)
			}
			if err := checkCase(c, rec); err != nil {
				rec.Fail("successor", err.Error(), c)
				t.Fatalf("%v", err)
			}
		})
		rec.Rapid(t, "uci", evid.Pick(6000, 300000), func(t *rapid.T) {
			c := genCase(t, nil, 60)
			c.UCI = true
			if gen.Chance(t, 1, 5, "startpos") {
				// a playout from the initial position through `position startpos moves`
				c = Case{FEN: gen.StartFEN, UCI: true, Start: true}
				gen.Playout(t, refchess.MustFEN(gen.StartFEN), 80, func(ply int, p *refchess.Pos, legal []refchess.Move, m refchess.Move) bool {
					c.Moves = append(c.Moves, m.String())
					return true
				})
			}
			if gen.Chance(t, 1, 2, "session") && len(c.Moves) > 0 {
				// mostly growing move lists (a game in progress), sometimes shorter ones again (take-backs, analysis)
				k := 0
				for i := gen.Draw(t, 1, 4, "positionCommands"); i > 0; i-- {
					if gen.Chance(t, 1, 3, "anyPrefix") {
						k = gen.Draw(t, 0, len(c.Moves), "prefix")
					} else {
						k += gen.Draw(t, 0, len(c.Moves)-k, "more")
					}
					c.Prefixes = append(c.Prefixes, k)
					c.NewGame = append(c.NewGame, gen.Chance(t, 1, 4, "newgame"))
				}
				c.NewGame = append(c.NewGame, gen.Chance(t, 1, 4, "newgameLast"))
			}
			c.Before = gen.EarlierPositions(t, c.FEN, c.Start, c.Moves)
			if len(c.Before) > 0 {
				rec.Class("uci_earlier_position_commands")
			}
			if rec.WantSample("uci") {
				rec.Sample("uci", c)
			}
			if err := checkCase(c, rec); err != nil {
				rec.Fail("uci", err.Error(), c)
				t.Fatalf("%v", err)
			}
		})
		rec.Rapid(t, "uci_long_game", evid.Pick(3, 40), func(t *rapid.T) {
			// "game histories of arbitrary length" through one `position startpos moves ...` line of 850..1500
			// (thorough: ..9000) plies, i.e. 4..45 KB of text; the halfmove clock is kept at or below 100 by
			// playing a pawn move or capture when it runs high, and the game stops when none is left
			c := Case{FEN: gen.StartFEN, UCI: true, Start: true}
			p := refchess.MustFEN(gen.StartFEN)
			n := gen.Draw(t, 850, evid.Pick(1500, 9000), "plies")
			for i := 0; i < n && p.Half < 100; i++ {
				legal := p.Legal()
				if len(legal) == 0 {
					break
				}
				var quiet, irr []refchess.Move
				for _, m := range legal {
					k := p.Sq[m.From]
					if k < 0 {
						k = -k
					}
					if k == refchess.Pawn || p.IsCapture(m) {
						irr = append(irr, m)
					} else {
						quiet = append(quiet, m)
					}
				}
				pick := legal
				switch {
				case p.Half >= 60+gen.Draw(t, 0, 38, "patience") && len(irr) > 0:
					pick = irr
				case len(quiet) > 0 && !gen.Chance(t, 1, 40, "any"):
					pick = quiet
				}
				m := pick[gen.Draw(t, 0, len(pick)-1, "m")]
				c.Moves = append(c.Moves, m.String())
				p = p.Make(m)
			}
			if len(c.Moves) > 1 && gen.Chance(t, 1, 2, "growing") {
				c.Prefixes = []int{len(c.Moves) - 1 - gen.Draw(t, 0, min(3, len(c.Moves)-2), "back")}
				c.NewGame = []bool{false, false}
			}
			bytes := 24 + 5*len(c.Moves)
			switch {
			case bytes > 32768:
				rec.Class("uci_move_list>32KiB")
			case bytes > 16384:
				rec.Class("uci_move_list>16KiB")
			case bytes > 4096:
				rec.Class("uci_move_list>4KiB")
			}
			if err := checkCase(c, rec); err != nil {
				rec.Fail("uci_long_game", err.Error(), c)
				t.Fatalf("%v", err)
			}
		})
		// en-passant table: every parent of the shape pawn + 1-2 flanking enemy pawns + kings + one line piece
		shard, n := evid.Shard()
		sl, of := shard, n
		if !evid.Thorough() {
			of, sl = 4*n, 4*shard+int(evid.Seed()%4)
		}
		ok := gen.EPTable(sl, of, func(parent *refchess.Pos, push refchess.Move) bool {
			b := eng.Direct(parent)
			succ := parent.Make(push)
			b.MakeMove(eng.Enc(push))
			rec.Eval(1)
			if classify(rec, parent, push, &succ) {
				rec.NT(evid.H("ept", parent.FEN()))
			}
			if d := successorDiff(b, &succ); d != "" {
				rec.Violate("ep_table", fmt.Sprintf("%s then %v: %s", parent.FEN(), push, d), Case{FEN: parent.FEN(), Moves: []string{push.String()}})
				return false
			}
			return true
		})
		if ok && evid.Thorough() {
			rec.Exhaustive("en-passant table: pawn on 2nd rank, 1-2 enemy pawns beside its 4th-rank square, both kings and one line piece of either colour anywhere (complete)")
		}
	}, func(check string, raw json.RawMessage) error {
		var c Case
		if err := json.Unmarshal(raw, &c); err != nil {
			return err
		}
		return checkCase(c, nil)
	})
}
