// C03 - undoing a move restores the position exactly.
package c03

import (
	"encoding/json"
	"fmt"
	"reflect"
	"testing"

	"github.com/paulsonkoly/chess-3/board"
	"github.com/paulsonkoly/chess-3/move"
	"pgregory.net/rapid"

	"verif/eng"
	"verif/evid"
	"verif/gen"
	"verif/refchess"
)

// Case: from FEN walk down Path (UCI moves, "null" for a null move). At every
// level all pseudo-legal moves (and the null move when not in check) are made
// and undone; with Tree > 0 the full make/undo tree of that depth is explored
// at the end of the path. Then the path is unwound, comparing at every level.
type Case struct {
	FEN  string   `json:"fen"`
	Path []string `json:"path"`
	Tree int      `json:"tree"`
	From int      `json:"from,omitempty"` // levels below this index are only stepped through (long games)
}

var ms = move.NewStore()

func diff(a, b board.VerifSnapshot) string {
	if reflect.DeepEqual(a, b) {
		return ""
	}
	va, vb := reflect.ValueOf(a), reflect.ValueOf(b)
	for i := 0; i < va.NumField(); i++ {
		if !reflect.DeepEqual(va.Field(i).Interface(), vb.Field(i).Interface()) {
			return fmt.Sprintf("%s: before %v after %v", va.Type().Field(i).Name, va.Field(i).Interface(), vb.Field(i).Interface())
		}
	}
	return "snapshots differ"
}

type stats struct {
	rec *evid.Rec
}

func (s stats) count(b *board.Board, p *refchess.Pos, m move.Move, legal bool) {
	if s.rec == nil {
		return
	}
	s.rec.Eval(1)
	rm := eng.Dec(m)
	nt := false
	mark := func(l string) { nt = true; s.rec.Class(l) }
	if !legal {
		mark("illegal_pseudo")
	}
	if p.IsEP(rm) {
		mark("en_passant")
	} else if p.IsCapture(rm) {
		mark("capture")
	}
	if p.IsCastle(rm) {
		mark("castle")
	}
	if rm.Promo != 0 {
		mark("promotion")
	}
	if p.EP >= 0 {
		mark("ep_state_cleared")
	}
	if nt {
		s.rec.NT(evid.H(p.FEN(), m))
	}
}

// level makes and undoes every generated move and the null move at the current position.
func level(b *board.Board, st stats) error {
	p := eng.ToRef(b)
	before := b.VerifSnapshot()
	me := b.STM
	for _, m := range eng.Generated(ms, b) {
		r := b.MakeMove(m)
		legal := !b.InCheck(me)
		b.UndoMove(m, r)
		st.count(b, &p, m, legal)
		if d := diff(before, b.VerifSnapshot()); d != "" {
			return fmt.Errorf("make/undo of %v in %s: %s", m, p.FEN(), d)
		}
	}
	if !b.InCheck(b.STM) {
		r := b.MakeNullMove()
		b.UndoNullMove(r)
		if st.rec != nil {
			st.rec.Eval(1)
			st.rec.Class("null_move")
			if p.EP >= 0 {
				st.rec.Class("null_move_with_ep")
				st.rec.NT(evid.H(p.FEN(), "null"))
			}
		}
		if d := diff(before, b.VerifSnapshot()); d != "" {
			return fmt.Errorf("null make/undo in %s: %s", p.FEN(), d)
		}
	}
	return nil
}

// tree explores the complete make/undo tree of depth d (legal moves are descended into, illegal ones made and undone).
func tree(b *board.Board, d int, st stats) error {
	before := b.VerifSnapshot()
	me := b.STM
	p := eng.ToRef(b)
	for _, m := range eng.Generated(ms, b) {
		r := b.MakeMove(m)
		legal := !b.InCheck(me)
		if legal && d > 1 {
			if err := tree(b, d-1, st); err != nil {
				return err
			}
		}
		b.UndoMove(m, r)
		st.count(b, &p, m, legal)
		if d > 1 && st.rec != nil {
			st.rec.Class("nested_depth>=2")
		}
		if df := diff(before, b.VerifSnapshot()); df != "" {
			return fmt.Errorf("tree make/undo of %v in %s (remaining depth %d): %s", m, p.FEN(), d, df)
		}
	}
	return nil
}

func checkCase(c Case, rec *evid.Rec) error {
	p, err := refchess.ParseFEN(c.FEN)
	if err != nil {
		return err
	}
	b, err := eng.FromRef(&p)
	if err != nil {
		return fmt.Errorf("engine rejects valid FEN %q: %v", c.FEN, err)
	}
	st := stats{rec}
	type frame struct {
		snap board.VerifSnapshot
		m    move.Move
		null bool
		r    board.Reverse
	}
	var stack []frame
	for i, s := range c.Path {
		if i >= c.From {
			if err := level(b, st); err != nil {
				return err
			}
		}
		f := frame{snap: b.VerifSnapshot()}
		if s == "null" {
			f.null = true
			f.r = b.MakeNullMove()
		} else {
			rm, err := refchess.ParseMove(s)
			if err != nil {
				return err
			}
			f.m = eng.Enc(rm)
			f.r = b.MakeMove(f.m)
		}
		stack = append(stack, f)
	}
	if err := level(b, st); err != nil {
		return err
	}
	if c.Tree > 0 {
		if err := tree(b, c.Tree, st); err != nil {
			return err
		}
	}
	for i := len(stack) - 1; i >= 0; i-- {
		f := stack[i]
		if f.null {
			b.UndoNullMove(f.r)
		} else {
			b.UndoMove(f.m, f.r)
		}
		if d := diff(f.snap, b.VerifSnapshot()); d != "" {
			return fmt.Errorf("unwinding level %d of %v from %s: %s", i, c.Path, c.FEN, d)
		}
		if rec != nil && len(stack) >= 2 {
			rec.Class("unwound_nest>=2")
		}
	}
	return nil
}

func TestC03(t *testing.T) {
	evid.Main(t, "C03", func(rec *evid.Rec) {
		rec.Rule("rapid paths (<=40 plies, legal moves and occasional null moves when not in check) from suite/bench/synthetic/motif roots; at every level EVERY generated pseudo-legal move (legal or not) and the null move are made and undone; complete depth-2/3 make/undo trees at the end of sampled paths; then the path is unwound; long games (100..260 plies) and very long ones (1030..1300 plies, thorough ..4200: hash histories beyond 1024 / 2048 entries) are unwound to the start as well. Oracle: deep snapshot (placement in three encodings, rights, en-passant, both counters, whole hash history) before make == after undo, at every unwinding level. Non-trivial = capture / castle / promotion / en passant / ep-state cleared / illegal pseudo-legal move; distinct by (position, move)")
		rec.Assume("snapshot hook board.VerifSnapshot (build tag verif) copies every field of Board")
		rec.Rapid(t, "undo", evid.Pick(30000, 1000000), func(t *rapid.T) {
			root, label := gen.Root(t)
			rec.Class("root_" + label)
			c := Case{FEN: root.FEN()}
			// the path is generated on the reference; null moves are inserted where the mover is not in check
			p := root
			plies := gen.Draw(t, 0, 40, "plies")
			for i := 0; i < plies; i++ {
				if !p.InCheck(p.White) && gen.Chance(t, 1, 10, "null") {
					c.Path = append(c.Path, "null")
					p.White = !p.White
					p.EP = -1
					continue
				}
				legal := p.Legal()
				if len(legal) == 0 || p.Half >= 100 {
					break
				}
				m := gen.PickMove(t, &p, legal, gen.Policy(gen.Draw(t, 0, 4, "pol")), refchess.Move{})
				c.Path = append(c.Path, m.String())
				p = p.Make(m)
			}
			if gen.Chance(t, 1, 6, "tree") {
				c.Tree = gen.Draw(t, 2, evid.Pick(2, 3), "treeDepth")
			}
			if rec.WantSample("undo") {
				rec.Sample("undo", c)
			}
			if err := checkCase(c, rec); err != nil {
				rec.Fail("undo", err.Error(), c)
				t.Fatalf("%v", err)
			}
		})
		rec.Rapid(t, "long_game", evid.Pick(1200, 15000), func(t *rapid.T) {
			// long, mostly reversible games: hash histories beyond 128 entries, halfmove clocks beyond 100 and 127
			root, _ := gen.Root(t)
			if gen.Chance(t, 1, 2, "startpos") {
				root = refchess.MustFEN(gen.StartFEN)
			}
			root.Half = 0
			ms, _ := gen.LongShuffle(t, root, 100, 260)
			c := Case{FEN: root.FEN()}
			for _, m := range ms {
				c.Path = append(c.Path, m.String())
			}
			c.From = max(0, len(c.Path)-gen.Draw(t, 1, 40, "tail"))
			rec.Class("long_game")
			if len(c.Path) >= 128 {
				rec.Class("history>=128")
			}
			if err := checkCase(c, rec); err != nil {
				rec.Fail("long_game", err.Error(), c)
				t.Fatalf("%v", err)
			}
		})
		rec.Rapid(t, "very_long_game", evid.Pick(2, 30), func(t *rapid.T) {
			// "at any nesting depth": histories of more than a thousand (two thousand) entries, unwound to the start
			root := refchess.MustFEN(gen.StartFEN)
			if gen.Chance(t, 1, 3, "other") {
				root, _ = gen.Root(t)
			}
			root.Half = 0
			ms, _ := gen.LongShuffle(t, root, 1030, evid.Pick(1300, 4200))
			c := Case{FEN: root.FEN()}
			for _, m := range ms {
				c.Path = append(c.Path, m.String())
			}
			c.From = max(0, len(c.Path)-gen.Draw(t, 1, 10, "tail"))
			if len(c.Path) >= 1024 {
				rec.Class("history>=1024")
			}
			if len(c.Path) >= 2048 {
				rec.Class("history>=2048")
			}
			if err := checkCase(c, rec); err != nil {
				rec.Fail("very_long_game", err.Error(), c)
				t.Fatalf("%v", err)
			}
		})
	}, func(check string, raw json.RawMessage) error {
		var c Case
		if err := json.Unmarshal(raw, &c); err != nil {
			return err
		}
		return checkCase(c, nil)
	})
}
