// C04 - incremental hash and redundant board representations never drift.
package c04

import (
	"encoding/json"
	"fmt"
	"testing"

	"github.com/paulsonkoly/chess-3/board"
	"pgregory.net/rapid"

	"verif/eng"
	"verif/evid"
	"verif/gen"
	"verif/refchess"
)

// Case: a history of moves ("null" = null move) from FEN; Alt (optional) is a
// second move order claimed to reach the same position.
type Case struct {
	FEN  string   `json:"fen"`
	Path []string `json:"path"`
	Alt  []string `json:"alt,omitempty"`
}

func stepCheck(b *board.Board, where string, reload bool) error {
	if got, want := b.Hash(), b.VerifCalcHash(); got != want {
		return fmt.Errorf("%s: incremental hash %016x != from-scratch hash %016x (%s)", where, uint64(got), uint64(want), b.FEN())
	}
	if d := eng.Consistent(b); d != "" {
		return fmt.Errorf("%s: %s (%s)", where, d, b.FEN())
	}
	if reload && b.FiftyCnt >= 0 && b.FiftyCnt <= 100 {
		fb, err := board.FromFEN(b.FEN())
		if err != nil {
			return fmt.Errorf("%s: engine rejects its own FEN %q: %v", where, b.FEN(), err)
		}
		if fb.Hash() != b.Hash() {
			return fmt.Errorf("%s: hash %016x != hash of the re-parsed FEN %016x (%s)", where, uint64(b.Hash()), uint64(fb.Hash()), b.FEN())
		}
	}
	return nil
}

// run plays path on a fresh board and a reference position, checking after every step.
func run(fen string, path []string, rec *evid.Rec) (*board.Board, refchess.Pos, map[string]uint64, error) {
	p, err := refchess.ParseFEN(fen)
	if err != nil {
		return nil, p, nil, err
	}
	b, err := eng.FromRef(&p)
	if err != nil {
		return nil, p, nil, fmt.Errorf("engine rejects valid FEN %q: %v", fen, err)
	}
	seen := map[string]uint64{}
	note := func(i int) error {
		// the same position (placement, side, rights, en-passant capturability) must always carry the same hash
		k := p.Key()
		if h, ok := seen[k]; ok {
			if h != uint64(b.Hash()) {
				return fmt.Errorf("step %d: position %s recurs with hash %016x, earlier %016x", i, p.FEN(), uint64(b.Hash()), h)
			}
			if rec != nil {
				rec.Class("recurrence_same_hash")
				rec.NT(evid.H("recur", k))
			}
		}
		seen[k] = uint64(b.Hash())
		return nil
	}
	if err := stepCheck(b, "start", true); err != nil {
		return nil, p, nil, err
	}
	if err := note(0); err != nil {
		return nil, p, nil, err
	}
	for i, s := range path {
		nt := false
		if s == "null" {
			b.MakeNullMove()
			if p.EP >= 0 {
				nt = true
			}
			p.White, p.EP = !p.White, -1
			if rec != nil {
				rec.Class("null_move")
			}
			nt = true
		} else {
			m, err := refchess.ParseMove(s)
			if err != nil {
				return nil, p, nil, err
			}
			if p.IsCapture(m) || p.IsCastle(m) || m.Promo != 0 || p.EP >= 0 {
				nt = true
			}
			n := p.Make(m)
			if n.Castle != p.Castle || n.EP >= 0 {
				nt = true
			}
			if rec != nil {
				switch {
				case p.IsEP(m):
					rec.Class("en_passant")
				case p.IsCastle(m):
					rec.Class("castle")
				case m.Promo != 0:
					rec.Class("promotion")
				case p.IsCapture(m):
					rec.Class("capture")
				}
				if n.Castle != p.Castle {
					rec.Class("rights_change")
				}
				if n.EP >= 0 {
					rec.Class("double_push")
				}
			}
			b.MakeMove(eng.Enc(m))
			p = n
		}
		if rec != nil {
			rec.Eval(1)
			if nt {
				rec.NT(evid.H(p.FEN(), s))
			}
		}
		if err := stepCheck(b, fmt.Sprintf("%s after %v", fen, path[:i+1]), i%4 == 3); err != nil {
			return nil, p, nil, err
		}
		if s != "null" {
			if err := note(i + 1); err != nil {
				return nil, p, nil, err
			}
		}
	}
	return b, p, seen, nil
}

func checkCase(c Case, rec *evid.Rec) error {
	b, p, _, err := run(c.FEN, c.Path, rec)
	if err != nil {
		return err
	}
	if len(c.Alt) == 0 {
		return nil
	}
	b2, p2, _, err := run(c.FEN, c.Alt, nil)
	if err != nil {
		return err
	}
	if p.Key() != p2.Key() {
		return nil // not a transposition after all (replay of a stale case)
	}
	if rec != nil {
		rec.Class("transposition_pair")
		rec.NT(evid.H("transp", c.FEN, c.Path, c.Alt))
	}
	if b.Hash() != b2.Hash() {
		return fmt.Errorf("%s: orders %v and %v reach the same position %s but hashes %016x / %016x", c.FEN, c.Path, c.Alt, p.FEN(), uint64(b.Hash()), uint64(b2.Hash()))
	}
	return nil
}

// legalPath reports whether path is playable from p and returns the end position.
func legalPath(p refchess.Pos, path []refchess.Move) (refchess.Pos, bool) {
	for _, m := range path {
		ok := false
		for _, l := range p.Legal() {
			if l == m {
				ok = true
				break
			}
		}
		if !ok {
			return p, false
		}
		p = p.Make(m)
	}
	return p, true
}

func names(ms []refchess.Move) []string {
	r := make([]string, len(ms))
	for i, m := range ms {
		r[i] = m.String()
	}
	return r
}

func TestC04(t *testing.T) {
	evid.Main(t, "C04", func(rec *evid.Rec) {
		rec.Rule("rapid histories (<=60 steps: legal moves and null moves when not in check) from suite/bench/synthetic/motif roots loaded with engine-normalised en-passant field; after EVERY step incremental hash == from-scratch hash (hook) and == hash of the re-parsed FEN (every 4th step), the three placement encodings agree, and any recurrence of a position (reference identity: placement, side, rights, en-passant capturability) carries the same hash. Transposition pairs: 4-ply sequences m1 m2 m3 m4 re-ordered as m3 m2 m1 m4 / m1 m4 m3 m2 / m3 m4 m1 m2, kept when the reference says both orders are legal and reach the same position. Non-trivial = step touching capture/castle/promotion/en-passant/rights/null move, a recurrence, or a transposition pair")
		rec.Assume("from-scratch hash hook board.VerifCalcHash (build tag verif); reference identity of positions from verif/refchess")
		rec.Rapid(t, "history", evid.Pick(40000, 3000000), func(t *rapid.T) {
			root, label := gen.Root(t)
			root = root.NormEP()
			rec.Class("root_" + label)
			c := Case{FEN: root.FEN()}
			p := root
			var hist [2]refchess.Move
			plies := gen.Draw(t, 0, 60, "plies")
			pol := gen.Policy(gen.Draw(t, 0, 4, "pol"))
			for i := 0; i < plies; i++ {
				if !p.InCheck(p.White) && gen.Chance(t, 1, 12, "null") {
					c.Path = append(c.Path, "null")
					p.White, p.EP = !p.White, -1
					continue
				}
				legal := p.Legal()
				if len(legal) == 0 || p.Half >= 100 {
					break
				}
				m := gen.PickMove(t, &p, legal, pol, hist[i%2])
				hist[i%2] = m
				c.Path = append(c.Path, m.String())
				p = p.Make(m)
			}
			if rec.WantSample("history") {
				rec.Sample("history", c)
			}
			if err := checkCase(c, rec); err != nil {
				rec.Fail("history", err.Error(), c)
				t.Fatalf("%v", err)
			}
		})
		rec.Rapid(t, "transposition", evid.Pick(60000, 5000000), func(t *rapid.T) {
			root, _ := gen.Root(t)
			root = gen.Playout(t, root, 10, nil).NormEP()
			if root.Half > 90 {
				root.Half = 0
			}
			p := root
			var seq []refchess.Move
			for i := 0; i < 4; i++ {
				legal := p.Legal()
				if len(legal) == 0 {
					return
				}
				m := gen.PickMove(t, &p, legal, gen.Policy(gen.Draw(t, 0, 4, "pol")), refchess.Move{})
				seq = append(seq, m)
				p = p.Make(m)
			}
			rec.Eval(1)
			for _, perm := range [][4]int{{2, 1, 0, 3}, {0, 3, 2, 1}, {2, 3, 0, 1}} {
				alt := []refchess.Move{seq[perm[0]], seq[perm[1]], seq[perm[2]], seq[perm[3]]}
				if names(alt)[0] == names(seq)[0] && names(alt)[1] == names(seq)[1] && names(alt)[2] == names(seq)[2] {
					continue
				}
				q, ok := legalPath(root, alt)
				if !ok || q.Key() != p.Key() {
					continue
				}
				c := Case{FEN: root.FEN(), Path: names(seq), Alt: names(alt)}
				if rec.WantSample("transposition") {
					rec.Sample("transposition", c)
				}
				if err := checkCase(c, rec); err != nil {
					rec.Fail("transposition", err.Error(), c)
					t.Fatalf("%v", err)
				}
			}
		})
	}, func(check string, raw json.RawMessage) error {
		var c Case
		if err := json.Unmarshal(raw, &c); err != nil {
			return err
		}
		return checkCase(c, nil)
	})
}
