// C05 - the pseudo-legality test accepts exactly the moves the generator emits.
package c05

import (
	"encoding/json"
	"fmt"
	"strings"
	"testing"

	"github.com/paulsonkoly/chess-3/board"
	"github.com/paulsonkoly/chess-3/chess"
	"github.com/paulsonkoly/chess-3/move"
	"pgregory.net/rapid"

	"verif/eng"
	"verif/evid"
	"verif/gen"
	"verif/refchess"
)

// Case is a position (FEN, loaded as is) and optionally one encoding / one UCI move string.
type Case struct {
	FEN  string `json:"fen"`
	Enc  int    `json:"enc,omitempty"`
	Text string `json:"text,omitempty"`
}

var ms = move.NewStore()

// sweep compares IsPseudoLegal with generator membership for all 2^15 encodings.
func sweep(b *board.Board, fen string, rec *evid.Rec) (int, string) {
	gen := map[move.Move]bool{}
	for _, m := range eng.Generated(ms, b) {
		gen[m] = true
	}
	own := b.Colors[b.STM]
	seventh := chess.RankBB(chess.SeventhRank.FromPerspectiveOf(b.STM))
	for e := 0; e < 1<<15; e++ {
		m := move.Move(e)
		got := b.IsPseudoLegal(m)
		fromOwn := own&(chess.BitBoard(1)<<m.From()) != 0
		if rec != nil && fromOwn {
			// sub-classes of interesting encodings (counted, a few per position at most matter)
			pc := b.SquaresToPiece[m.From()]
			switch {
			case pc == chess.Pawn && m.Promo() != 0 && seventh&(chess.BitBoard(1)<<m.From()) == 0:
				rec.Class("promo_bits_on_non_promoting_pawn")
			case pc == chess.Pawn && seventh&(chess.BitBoard(1)<<m.From()) != 0 && (m.Promo() < chess.Knight || m.Promo() > chess.Queen):
				rec.Class("seventh_rank_pawn_bad_promo_code")
			case pc == chess.King && (m.From() == chess.E1 || m.From() == chess.E8) && (m.To() == m.From()+2 || m.To() == m.From()-2):
				rec.Class("castle_encoding")
			case pc != chess.Pawn && m.Promo() != 0:
				rec.Class("promo_bits_on_piece")
			}
		}
		if got != gen[m] {
			what := "accepted but never generated"
			if !got {
				what = "generated but rejected"
			}
			return e, fmt.Sprintf("encoding %d (%v, from=%v to=%v promo=%d) %s in %s", e, m, m.From(), m.To(), m.Promo(), what, fen)
		}
	}
	if rec != nil {
		rec.Eval(1 << 15)
		rec.ClassN("own_piece_on_from_square", own.Count()*512)
	}
	return 0, ""
}

func checkCase(c Case, rec *evid.Rec) error {
	if c.Text != "" {
		return checkText(c, rec)
	}
	b, err := board.FromFEN(c.FEN)
	if err != nil {
		return fmt.Errorf("engine rejects valid FEN %q: %v", c.FEN, err)
	}
	if _, d := sweep(b, c.FEN, rec); d != "" {
		return fmt.Errorf("%s", d)
	}
	return nil
}

// checkText sends one move string through `position fen F moves s` and reads the position back.
func checkText(c Case, rec *evid.Rec) error {
	b, err := board.FromFEN(c.FEN)
	if err != nil {
		return fmt.Errorf("engine rejects valid FEN %q: %v", c.FEN, err)
	}
	out, _ := eng.UCI([]string{"position fen " + c.FEN + " moves " + c.Text, "fen"})
	got := eng.LastFEN(out)
	if rec != nil {
		rec.Eval(1)
	}
	// the driver starts out on the initial position: a driver that treats the position command as one unit
	// refuses it as a whole and stays there
	if got == b.FEN() || got == "rnbqkbnr/pppppppp/8/8/8/8/PPPPPPPP/RNBQKBNR w KQkq - 0 1" {
		// unchanged: fine unless the string is the well-formed name of a legal move. (A generated move that
		// leaves the own king attacked may be played, as the pseudo-legality gate does, or refused, as a driver
		// that also tests legality would: the property only says that nothing but a genuine move is played.)
		if m, err := refchess.ParseMove(c.Text); err == nil {
			rp := eng.ToRef(b)
			for _, l := range rp.Legal() {
				if l == m {
					return fmt.Errorf("`position fen %s moves %s` left the position unchanged although %s is a legal move", c.FEN, c.Text, c.Text)
				}
			}
		}
		if rec != nil {
			rec.Class("gui_move_rejected")
		}
		return nil
	}
	// changed: it must be the successor of some generated move
	for _, g := range eng.Generated(ms, b) {
		r := b.MakeMove(g)
		f := b.FEN()
		b.UndoMove(g, r)
		if f == got {
			if rec != nil {
				rec.Class("gui_move_played")
				rec.NT(evid.H("gui", c.FEN, c.Text))
			}
			if m, err := refchess.ParseMove(c.Text); err == nil && eng.Enc(m) != g {
				// a well-formed string must play exactly the move it names
				return fmt.Errorf("`moves %s` on %s played %v", c.Text, c.FEN, g)
			}
			return nil
		}
	}
	return fmt.Errorf("`position fen %s moves %s` produced %q, which is not the successor of any generated move", c.FEN, c.Text, got)
}

// moveText draws a move string: a generated move, a near miss, or malformed text.
func moveText(t *rapid.T, b *board.Board) string {
	g := eng.Generated(ms, b)
	pick := func() move.Move {
		if len(g) == 0 {
			return move.Move(gen.Draw(t, 0, 1<<15-1, "enc"))
		}
		return g[gen.Draw(t, 0, len(g)-1, "gm")]
	}
	sq := func(s chess.Square) string { return s.String() }
	switch gen.Draw(t, 0, 7, "textKind") {
	case 7: // tokens with a meaning elsewhere in the protocol or in other notations, and moves that go nowhere
		special := []string{"0000", "0000q", "00000", "null", "(none)", "none", "-", "--", "a1a1", "e1e1", "e8e8", "h8h8", "O-O", "O-O-O", "0-0", "0-0-0", "o-o", "e1h1", "e8a8", "e2-e4", "E2E4", "e2e4+", "Nf3", "ponder", "moves", "startpos"}
		return special[gen.Draw(t, 0, len(special)-1, "special")]
	case 0:
		return pick().String()
	case 1: // promotion letter appended / changed
		m := pick()
		return sq(m.From()) + sq(m.To()) + string("qrbnkpx1"[gen.Draw(t, 0, 7, "pl")])
	case 2: // own piece, arbitrary target
		m := pick()
		return sq(m.From()) + sq(chess.Square(gen.Draw(t, 0, 63, "to")))
	case 3: // arbitrary squares, optional promotion
		s := sq(chess.Square(gen.Draw(t, 0, 63, "from"))) + sq(chess.Square(gen.Draw(t, 0, 63, "to")))
		if gen.Chance(t, 1, 3, "promo") {
			s += string("qrbn"[gen.Draw(t, 0, 3, "pl")])
		}
		return s
	case 4: // characters just outside a-h / 1-8 (byte arithmetic in the parser may wrap)
		bs := []byte(pick().String())
		i := gen.Draw(t, 0, len(bs)-1, "pos")
		bs[i] = "`i09@H:/A"[gen.Draw(t, 0, 8, "ch")]
		return string(bs)
	case 5: // wrong length
		s := pick().String()
		if gen.Chance(t, 1, 2, "short") {
			return s[:gen.Draw(t, 1, 3, "len")]
		}
		return s + "qq"[:gen.Draw(t, 1, 2, "extra")] + "x"
	default: // arbitrary short printable token
		n := gen.Draw(t, 1, 6, "n")
		var sb strings.Builder
		for i := 0; i < n; i++ {
			sb.WriteByte(byte(gen.Draw(t, 33, 126, "c")))
		}
		return sb.String()
	}
}

func TestC05(t *testing.T) {
	evid.Main(t, "C05", func(rec *evid.Rec) {
		rec.Rule("positions: suite/bench/synthetic/motif roots (raw and normalised en-passant field) and positions along playouts, each x ALL 32768 move encodings: IsPseudoLegal(m) iff GenNoisy+GenNotNoisy emit m. GUI gate: generated move strings (well-formed of every class, near misses, malformed) through `position fen F moves s` + `fen`: position unchanged or successor of a generated move; well-formed strings play exactly the move they name iff it is generated. Evaluations count encodings; non-trivial = position whose sweep met encodings with an own piece on the from square (all do; distinct by position), plus played GUI moves")
		rec.Assume("the move generator is the reference here (C01 checks the generator against the rules)")
		rec.Rapid(t, "sweep", evid.Pick(16000, 1000000), func(t *rapid.T) {
			root, label := gen.Root(t)
			p := gen.Playout(t, root, 24, nil)
			if gen.Chance(t, 1, 2, "norm") {
				p = p.NormEP()
			}
			c := Case{FEN: p.FEN()}
			rec.Class("root_" + label)
			if p.EP >= 0 {
				rec.Class("ep_target_present")
			}
			if p.InCheck(p.White) {
				rec.Class("in_check")
			}
			rec.NT(evid.HS(c.FEN))
			if rec.WantSample(label) {
				rec.Sample(label, c)
			}
			b, err := board.FromFEN(c.FEN)
			if err != nil {
				rec.Fail("sweep", "engine rejects valid FEN: "+err.Error(), c)
				t.Fatalf("%v", err)
			}
			if e, d := sweep(b, c.FEN, rec); d != "" {
				c.Enc = e
				rec.Fail("sweep", d, c)
				t.Fatalf("%s", d)
			}
		})
		rec.Rapid(t, "gui", evid.Pick(10000, 500000), func(t *rapid.T) {
			root, _ := gen.Root(t)
			p := gen.Playout(t, root, 16, nil)
			b, err := board.FromFEN(p.FEN())
			if err != nil {
				t.Fatalf("%v", err)
			}
			c := Case{FEN: p.FEN(), Text: moveText(t, b)}
			if rec.WantSample("gui") {
				rec.Sample("gui", c)
			}
			if err := checkText(c, rec); err != nil {
				rec.Fail("gui", err.Error(), c)
				t.Fatalf("%v", err)
			}
		})
	}, func(check string, raw json.RawMessage) error {
		var c Case
		if err := json.Unmarshal(raw, &c); err != nil {
			return err
		}
		return checkCase(c, nil)
	})
}
