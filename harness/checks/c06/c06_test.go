// C06 - search returns a legal move unless the game is over; board left untouched.
package c06

import (
	"encoding/json"
	"fmt"
	"os"
	"reflect"
	"regexp"
	"strconv"
	"strings"
	"sync"
	"testing"
	"time"

	"github.com/paulsonkoly/chess-3/board"
	"github.com/paulsonkoly/chess-3/chess"
	"github.com/paulsonkoly/chess-3/move"
	"github.com/paulsonkoly/chess-3/params"
	"github.com/paulsonkoly/chess-3/search"
	"github.com/paulsonkoly/chess-3/transp"
	"pgregory.net/rapid"

	"verif/eng"
	"verif/evid"
	"verif/gen"
	"verif/refchess"
	"verif/srch"
)

// Case is one search request on the position reached by Moves from FEN (the moves are part of the game history).
type Case struct {
	FEN    string   `json:"fen"`
	Moves  []string `json:"moves,omitempty"`
	TT     int      `json:"tt"`                // table size in bytes
	Depth  int      `json:"depth"`             // 0 = no depth limit given
	Nodes  int      `json:"nodes"`             // -1 = none (hard budget = abort point)
	Soft   int      `json:"soft"`              // soft node limit, 0 = none
	SoftMs int      `json:"soft_ms,omitempty"` // soft time limit in milliseconds, 0 = none (wall clock: only the invariants are judged)
	Stop   string   `json:"stop,omitempty"`    // "", "before", "info:<j>" (closed from inside the j-th info line), "timer:<us>"
	Warm   []Case   `json:"warm,omitempty"`    // searches run before on the same engine (tables carry over)
	SweepK int      `json:"sweep_k,omitempty"` // abort sweep: the request is repeated with every hard node budget 0..SweepK
	Ponder string   `json:"ponder,omitempty"`  // "queued": ponder search whose ponderhit is already waiting; "hit:<j>": ponderhit sent from inside the j-th info line
	Params []string `json:"params,omitempty"`  // spsa build only: name=value settings
	GoArgs string   `json:"go,omitempty"`      // UCI leg: arguments of the go command
	// Before (UCI leg): conforming position / ucinewgame lines sent on the same driver first (gen.EarlierPositions)
	Before []string `json:"before,omitempty"`
	// Foreign: an entry left in the engine's table under the root's own key right before the search - the state a
	// signature collision with another position leaves behind (hook search.VerifTable)
	Foreign *Foreign `json:"foreign,omitempty"`
}

// Foreign is a table entry: Move is any 15-bit encoding (a move of another position, or no move at all).
type Foreign struct {
	Move  int `json:"move"`
	Depth int `json:"depth"`
	Score int `json:"score"`
	Type  int `json:"type"`
	Gen   int `json:"gen"`
}

var ttSizes = []int{32, 64, 3200, 128 * 1024, 1 << 20}

// knownRec is the recorder used to classify occurrences of listed known findings.
var knownRec *evid.Rec

// pooled engine instances are reused across cases without Clear (tables carry over); the
// cases run on an instance since it was created are logged so that a failure can be replayed
// from a fresh instance. An instance is retired after logLimit cases.
type pooled struct {
	s   *search.Search
	log []Case
}

const logLimit = 150

var engMu sync.Mutex
var engines = map[int]*pooled{}

func engineFor(size int) *pooled {
	engMu.Lock()
	defer engMu.Unlock()
	if engines[size] == nil || len(engines[size].log) >= logLimit {
		engines[size] = &pooled{s: search.New(size)}
	}
	return engines[size]
}

type rootInfo struct {
	p       refchess.Pos
	b       *board.Board
	legal   map[uint16]bool
	final   bool
	third   bool
	mate    bool
	nolegal bool
	// knownRawEP: the root is a third occurrence only because the start FEN carried a raw, uncapturable
	// en-passant target that the engine keeps in its hash (known finding start-fen-raw-ep, owned by C10)
	knownRawEP bool
}

func setup(c Case) (*rootInfo, error) {
	p, err := refchess.ParseFEN(c.FEN)
	if err != nil {
		return nil, err
	}
	b, err := eng.FromRef(&p)
	if err != nil {
		return nil, fmt.Errorf("engine rejects valid FEN %q: %v", c.FEN, err)
	}
	cnt := map[string]int{p.Key(): 1}
	rawStart := p.EP >= 0 && !p.EPCapturable()
	startKey := p.Key()
	for _, s := range c.Moves {
		m, err := refchess.ParseMove(s)
		if err != nil {
			return nil, err
		}
		b.MakeMove(eng.Enc(m))
		p = p.Make(m)
		cnt[p.Key()]++
	}
	ri := &rootInfo{p: p, b: b, legal: map[uint16]bool{}}
	for _, m := range p.Legal() {
		ri.legal[m.Enc()] = true
	}
	ri.nolegal = len(ri.legal) == 0
	ri.mate = ri.nolegal && p.InCheck(p.White)
	ri.third = cnt[p.Key()] >= 3
	ri.final = ri.nolegal || ri.third || p.Half >= 100
	if rawStart && ri.third && cnt[p.Key()] == 3 && p.Key() == startKey && !ri.nolegal && p.Half < 100 && len(c.Moves) > 0 {
		ri.knownRawEP = true
	}
	return ri, nil
}

type stopWriter struct {
	inner interface{ Write([]byte) (int, error) }
	after int
	seen  int
	ch    chan struct{}
	once  sync.Once
}

func (w *stopWriter) Write(p []byte) (int, error) {
	w.seen++
	if w.seen > w.after {
		w.once.Do(func() { close(w.ch) })
	}
	return w.inner.Write(p)
}

// judge applies the property's clauses to one finished search.
func judge(c Case, ri *rootInfo, before board.VerifSnapshot, r srch.Result, completed bool, what string) error {
	after := ri.b.VerifSnapshot()
	if !reflect.DeepEqual(before, after) {
		return fmt.Errorf("%s: the board differs after the search (before %+v, after %+v)", what, before, after)
	}
	if r.Move != 0 && !ri.legal[eng.Key(r.Move)] {
		return fmt.Errorf("%s: returned move %v is not legal in %s", what, r.Move, ri.p.FEN())
	}
	if r.Move == 0 && !ri.final {
		return fmt.Errorf("%s: null move returned on the non-final root %s (%s)", what, ri.p.FEN(), r.Describe())
	}
	if completed && ri.final {
		okScore := r.Score == 0 || (ri.mate && r.Score == -chess.Inf)
		if ri.knownRawEP && r.Move != 0 && knownRec != nil && knownRec.IsKnownOpen("start-fen-raw-ep") {
			knownRec.KnownHit("start-fen-raw-ep", "third occurrence of a start position whose FEN carried a raw, uncapturable en-passant target is not recognised (same root cause as the C10 finding): the search plays on instead of returning the null move")
			return nil
		}
		if r.Move != 0 || !okScore {
			return fmt.Errorf("%s: completed search on the final root %s (no legal move=%v third occurrence=%v clock=%d) returned %s", what, ri.p.FEN(), ri.nolegal, ri.third, ri.p.Half, r.Describe())
		}
	}
	if c.Nodes >= 0 && r.Nodes > c.Nodes {
		return fmt.Errorf("%s: %d nodes spent with a hard budget of %d", what, r.Nodes, c.Nodes)
	}
	return nil
}

func applyParams(c Case) error {
	for _, kv := range c.Params {
		i := strings.IndexByte(kv, '=')
		v, _ := strconv.Atoi(kv[i+1:])
		if err := params.Set(kv[:i], v); err != nil {
			return fmt.Errorf("params.Set(%s): %v", kv, err)
		}
	}
	return nil
}

// one runs a single request (after its warm-up requests) and judges it.
func one(c Case, rec *evid.Rec) (err error) {
	defer func() {
		if r := recover(); r != nil {
			err = fmt.Errorf("panic during search %+v: %v", c, r)
			engMu.Lock()
			delete(engines, c.TT) // the instance may be wedged
			engMu.Unlock()
		}
	}()
	if c.GoArgs != "" {
		return uciCase(c, rec)
	}
	if err := applyParams(c); err != nil {
		return err
	}
	pe := engineFor(c.TT)
	s := pe.s
	if c.SweepK > 0 {
		sw := c
		sw.SweepK = 0
		for k := 0; k <= c.SweepK; k++ {
			sw.Nodes = k
			if err := run1(sw, s, rec); err != nil {
				return fmt.Errorf("abort sweep, budget %d: %v", k, err)
			}
		}
		if rec != nil {
			pe.log = append(pe.log, brief(c))
		}
		return nil
	}
	for _, w := range c.Warm {
		w.TT = c.TT
		if err := one(w, nil); err != nil {
			return fmt.Errorf("warm-up: %v", err)
		}
	}
	err = run1(c, s, rec)
	if rec != nil {
		pe.log = append(pe.log, brief(c))
	}
	return err
}

// withHistory returns c preceded by everything that ran on its engine instance before it.
func withHistory(c Case) Case {
	engMu.Lock()
	defer engMu.Unlock()
	if pe := engines[c.TT]; pe != nil && len(pe.log) > 0 {
		log := pe.log
		if n := len(log); n > 0 && reflect.DeepEqual(log[n-1], brief(c)) {
			log = log[:n-1]
		}
		c.Warm = append(append([]Case{}, log...), c.Warm...)
	}
	return c
}

// run1 performs one search request on s and judges it.
func run1(c Case, s *search.Search, rec *evid.Rec) error {
	ri, err := setup(c)
	if err != nil {
		return err
	}
	if f := c.Foreign; f != nil {
		s.VerifTable().Insert(ri.b.Hash(), transp.Gen(f.Gen), chess.Depth(f.Depth), 0, move.Move(f.Move), chess.Score(f.Score), transp.Type(f.Type))
	}
	before := ri.b.VerifSnapshot()
	var opts []search.Option
	if c.Depth > 0 {
		opts = append(opts, search.WithDepth(chess.Depth(c.Depth)))
	}
	if c.Nodes >= 0 {
		opts = append(opts, search.WithNodes(c.Nodes))
	}
	if c.Soft > 0 {
		opts = append(opts, search.WithSoftNodes(c.Soft))
	}
	if c.SoftMs > 0 {
		opts = append(opts, search.WithSoftTime(int64(c.SoftMs)))
	}
	quiet := c.TT < 128*1024
	stopped := false
	var phCh chan time.Time
	if c.Ponder != "" {
		// limits are ignored while pondering and apply from the ponderhit on
		phCh = make(chan time.Time, 1)
		opts = append(opts, search.WithPonderHit(phCh))
		if c.Ponder == "queued" {
			phCh <- time.Now()
		}
	}
	var r srch.Result
	switch {
	case c.Stop == "before":
		ch := make(chan struct{})
		close(ch)
		opts = append(opts, search.WithStop(ch))
		stopped = true
		r = srch.Run(s, ri.b, quiet, opts...)
	case strings.HasPrefix(c.Stop, "info:") && !quiet:
		j, _ := strconv.Atoi(c.Stop[5:])
		ch := make(chan struct{})
		var buf strings.Builder
		sw := &stopWriter{inner: &buf, after: j, ch: ch}
		cnt := search.Counters{}
		opts = append(opts, search.WithStop(ch), search.WithOutput(sw), search.WithCounters(&cnt))
		sc, m, p := s.Go(ri.b, opts...)
		r = srch.Result{Score: sc, Move: m, Ponder: p, Nodes: cnt.Nodes, Raw: buf.String()}
		stopped = sw.seen > sw.after
	case strings.HasPrefix(c.Stop, "timer:"):
		us, _ := strconv.Atoi(c.Stop[6:])
		ch := make(chan struct{})
		done := make(chan struct{})
		go func() {
			select {
			case <-time.After(time.Duration(us) * time.Microsecond):
			case <-done:
			}
			close(ch)
		}()
		opts = append(opts, search.WithStop(ch))
		r = srch.Run(s, ri.b, quiet, opts...)
		close(done)
		stopped = true // may or may not have fired in time: treat as possibly aborted
	case strings.HasPrefix(c.Ponder, "hit:") && !quiet:
		j, _ := strconv.Atoi(c.Ponder[4:])
		ch := make(chan struct{})
		var buf strings.Builder
		sw := &stopWriter{inner: &buf, after: j, ch: ch}
		cnt := search.Counters{}
		go func() {
			select {
			case <-ch:
			case <-time.After(10 * time.Second): // fewer info lines than expected: do not ponder for ever
			}
			phCh <- time.Now()
		}()
		opts = append(opts, search.WithOutput(sw), search.WithCounters(&cnt))
		sc, m, p := s.Go(ri.b, opts...)
		sw.once.Do(func() { close(ch) })
		r = srch.Result{Score: sc, Move: m, Ponder: p, Nodes: cnt.Nodes, Raw: buf.String()}
		r.Lines, r.BadLine = srch.Parse(r.Raw)
	default:
		r = srch.Run(s, ri.b, quiet, opts...)
	}
	if c.Ponder != "" && rec != nil {
		rec.Class("ponder_" + strings.SplitN(c.Ponder, ":", 2)[0])
	}
	// the search ran to completion if nothing could have aborted it
	aborted := stopped || (c.Nodes >= 0 && r.Nodes >= c.Nodes)
	for _, l := range r.Lines {
		if l.Abort {
			aborted = true
		}
	}
	completed := !aborted && c.Depth > 0
	if rec != nil {
		rec.Eval(1)
		nt := false
		if aborted && r.Nodes > 0 {
			rec.Class("aborted_inside_iteration")
			nt = true
		}
		if ri.final {
			nt = true
			switch {
			case ri.mate:
				rec.Class("root_checkmate")
			case ri.nolegal:
				rec.Class("root_stalemate")
			case ri.third:
				rec.Class("root_third_occurrence")
			default:
				rec.Class("root_clock>=100")
			}
		}
		if len(ri.legal) == 1 {
			rec.Class("root_single_reply")
			nt = true
		}
		if ri.p.InCheck(ri.p.White) {
			rec.Class("root_in_check")
		}
		if c.Stop != "" {
			rec.Class("stop_" + strings.SplitN(c.Stop, ":", 2)[0])
		}
		if c.SoftMs > 0 {
			rec.Class("soft_time_limit")
		}
		if len(c.Warm) > 0 {
			rec.Class("warmed_tables")
		}
		if completed {
			rec.Class("completed")
		}
		rec.Class(fmt.Sprintf("tt_%d", c.TT))
		if nt {
			rec.NT(evid.H(c.FEN, c.Moves, c.TT, c.Depth, c.Nodes, c.Soft, c.Stop))
		}
	}
	if err := judge(c, ri, before, r, completed, fmt.Sprintf("search %+v", brief(c))); err != nil {
		return err
	}
	// the same instance and board can be searched again
	r2 := srch.Run(s, ri.b, true, search.WithDepth(1), search.WithNodes(500))
	c2 := c
	c2.Nodes = 500
	if err := judge(c2, ri, before, r2, false, "follow-up search on the same instance"); err != nil {
		// diagnostics: the same request again on this instance, and on a fresh one
		r3 := srch.Run(s, ri.b, true, search.WithDepth(1), search.WithNodes(500))
		r4 := srch.Run(search.New(1<<20), ri.b, false, search.WithDepth(1), search.WithNodes(500))
		tt, hit := diagTT(s, ri.b)
		return fmt.Errorf("%v [again on the same instance: %s; on a fresh 1 MB instance: %s %q; IsCheckmate=%v InCheck=%v playable=%d; %s hit=%v]", err, r3.Describe(), r4.Describe(), r4.Raw, ri.b.IsCheckmate(), ri.b.InCheck(ri.b.STM), len(eng.Playable(diagStore, ri.b)), tt, hit)
	}
	return nil
}

var diagStore = move.NewStore()

func diagTT(s *search.Search, b *board.Board) (string, bool) {
	out := "children at depth 0:"
	for _, m := range eng.Playable(diagStore, b) {
		r := b.MakeMove(m)
		cr := srch.Run(s, b, true, search.WithDepth(0), search.WithNodes(500))
		out += fmt.Sprintf(" %v=>%d(%dn)", m, int(cr.Score), cr.Nodes)
		b.UndoMove(m, r)
	}
	return out, false
}

func brief(c Case) Case { c.Warm = nil; return c }

var bestRe = regexp.MustCompile(`^bestmove (\S+)( ponder (\S+))?$`)

// uciCase sends `go <args>` to the real driver and judges the bestmove line.
func uciCase(c Case, rec *evid.Rec) error {
	ri, err := setup(c)
	if err != nil {
		return err
	}
	ses := eng.NewSession()
	for _, l := range c.Before {
		ses.Send(l)
	}
	cmd := "position fen " + c.FEN
	if c.FEN == gen.StartFEN {
		cmd = "position startpos"
	}
	if len(c.Moves) > 0 {
		cmd += " moves " + strings.Join(c.Moves, " ")
	}
	ses.Send(cmd)
	if fs := strings.Fields(c.GoArgs); len(fs) > 0 && isKeyword(fs[len(fs)-1]) {
		// a keyword without its value: the driver documents "argument missing" and starts no search
		ses.Send("go " + c.GoArgs)
		alive := ses.Sync(30 * time.Second)
		quitOK := ses.Quit(30 * time.Second)
		if !alive || !quitOK {
			return fmt.Errorf("driver not responsive after `go %s`", c.GoArgs)
		}
		for _, l := range ses.Lines() {
			if strings.HasPrefix(l, "bestmove") {
				if m := bestRe.FindStringSubmatch(l); m == nil {
					return fmt.Errorf("malformed bestmove line %q", l)
				}
			}
		}
		if rec != nil {
			rec.Eval(1)
			rec.Class("uci_go_missing_value")
		}
		return nil
	}
	wf := wellFormed(c.GoArgs)
	ses.Send("go " + c.GoArgs)
	line, ok := ses.Wait("bestmove", 150*time.Millisecond)
	if !ok {
		ses.Send("stop")
		if wf {
			line, ok = ses.Wait("bestmove", 60*time.Second)
		} else if line, ok = ses.Wait("bestmove", 5*time.Second); !ok {
			// arguments outside the protocol (text where a number belongs, a negative clock, unknown words): the
			// driver may refuse the command and start no search - a running search would have answered the stop.
			// The property is about searches; all that remains to ask is that the driver is alive and well.
			alive := ses.Sync(30 * time.Second)
			quitOK := ses.Quit(30 * time.Second)
			if !alive || !quitOK {
				return fmt.Errorf("driver not responsive after `go %s`", c.GoArgs)
			}
			if rec != nil {
				rec.Eval(1)
				rec.Class("uci_go_malformed_refused")
			}
			return nil
		}
	}
	ses.Send("fen")
	ok2 := ses.Sync(30 * time.Second)
	fenLine := ""
	if ok2 {
		fenLine = eng.LastFEN(strings.Join(ses.Lines(), "\n")) // the only `fen` answer of the session
	}
	quitOK := ses.Quit(30 * time.Second)
	if !ok || !quitOK {
		fmt.Println("INFRA-ERROR uci session did not answer / end:", cmd, "go", c.GoArgs)
		os.Exit(2)
	}
	n := 0
	for _, l := range ses.Lines() {
		if strings.HasPrefix(l, "bestmove") {
			n++
		}
	}
	if n != 1 {
		return fmt.Errorf("`go %s` was answered by %d bestmove lines", c.GoArgs, n)
	}
	m := bestRe.FindStringSubmatch(line)
	if m == nil {
		return fmt.Errorf("malformed bestmove line %q", line)
	}
	if rec != nil {
		rec.Eval(1)
		rec.Class("uci_go")
		if wf {
			rec.Class("uci_go_wellformed")
			rec.NT(evid.H("uci", c.FEN, c.Moves, c.GoArgs))
		}
	}
	want := ri.p.NormEP()
	if len(c.Moves) == 0 {
		want = ri.p
	}
	if ok2 && fenLine != want.FEN() {
		return fmt.Errorf("after `go %s` the driver's position is %q, was %q", c.GoArgs, fenLine, want.FEN())
	}
	if m[1] == "0000" {
		if wf && !ri.final {
			return fmt.Errorf("`go %s` on the non-final root %s answered bestmove 0000", c.GoArgs, ri.p.FEN())
		}
		return nil
	}
	bm, err := refchess.ParseMove(m[1])
	if err != nil || !ri.legal[bm.Enc()] {
		return fmt.Errorf("`go %s` on %s answered %q, which is not a legal move", c.GoArgs, ri.p.FEN(), line)
	}
	return nil
}

func isKeyword(s string) bool {
	switch s {
	case "depth", "nodes", "movetime", "wtime", "btime", "winc", "binc":
		return true
	}
	return false
}

// wellFormed: every value is a decimal int64, and a depth, if given, is at least 1.
func wellFormed(args string) bool {
	fs := strings.Fields(args)
	for i := 0; i < len(fs); i++ {
		switch fs[i] {
		case "depth", "nodes", "movetime", "wtime", "btime", "winc", "binc":
			if i+1 >= len(fs) {
				return false
			}
			v, err := strconv.ParseInt(fs[i+1], 10, 64)
			if err != nil {
				return false
			}
			if fs[i] == "depth" && v < 1 {
				return false
			}
			if fs[i] != "depth" && fs[i] != "nodes" && v < 0 {
				return false // negative clocks are outside what a GUI reports
			}
			i++
		case "ponder", "infinite":
		default:
			return false
		}
	}
	return true
}

// drawRoot draws a root with its history, biased towards final and forcing roots.
func drawRoot(t *rapid.T, rec *evid.Rec) Case {
	var c Case
	switch gen.Draw(t, 0, 10, "rootKind") {
	case 10: // the listed known-finding class: start FEN with a raw, uncapturable en-passant target, shuffled back to twice
		if p, m, _, ok := gen.EPMotif(t); ok {
			start := p.Make(m)
			if start.EP >= 0 && !start.EPCapturable() && !start.InCheck(start.White) {
				// find a four-ply shuffle: a, b, a-back, b-back
				l1 := start.Legal()
				for _, a := range l1 {
					p1 := start.Make(a)
					done := false
					for _, b := range p1.Legal() {
						p2 := p1.Make(b)
						ab, bb := refchess.Move{From: a.To, To: a.From}, refchess.Move{From: b.To, To: b.From}
						if q, ok := legalSeq(p2, ab, bb); ok && q.Key() == start.Key() {
							c = Case{FEN: start.FEN(), Moves: []string{a.String(), b.String(), ab.String(), bb.String(), a.String(), b.String(), ab.String(), bb.String()}}
							done = true
							break
						}
					}
					if done {
						break
					}
				}
			}
		}
	case 0: // histories that tend to repeat
		root, _ := gen.Root(t)
		if gen.Chance(t, 1, 2, "startpos") {
			root = refchess.MustFEN(gen.StartFEN)
		}
		root = root.NormEP()
		if root.Half > 80 {
			root.Half = 0
		}
		c = Case{FEN: root.FEN(), Moves: gen.History(t, root, 24)}
	case 1: // clock at or beyond 100
		root, _ := gen.Root(t)
		root.Half = gen.Draw(t, 96, 100, "half")
		c = Case{FEN: root.FEN()}
		p := root
		n := gen.Draw(t, 0, 8, "playOn")
		for i := 0; i < n; i++ {
			legal := p.Legal()
			if len(legal) == 0 {
				break
			}
			m := gen.PickMove(t, &p, legal, gen.Shuffle, refchess.Move{})
			c.Moves = append(c.Moves, m.String())
			p = p.Make(m)
		}
	case 2, 3: // boxed kings: mates, stalemates, single replies
		if p, ok := gen.BoxedKingMotif(t); ok {
			if gen.Chance(t, 1, 2, "mirror") {
				p = gen.MirrorColors(p)
			}
			c = Case{FEN: p.FEN()}
		}
	}
	if c.FEN == "" {
		root, _ := gen.Root(t)
		c = Case{FEN: root.FEN()}
		gen.Playout(t, root, 16, func(ply int, p *refchess.Pos, legal []refchess.Move, m refchess.Move) bool {
			c.Moves = append(c.Moves, m.String())
			return true
		})
	}
	return c
}

// legalSeq plays the moves if each is legal in turn.
func legalSeq(p refchess.Pos, ms ...refchess.Move) (refchess.Pos, bool) {
	for _, m := range ms {
		ok := false
		for _, l := range p.Legal() {
			ok = ok || l == m
		}
		if !ok || p.IsCapture(m) {
			return p, false
		}
		k := p.Sq[m.From]
		if k == refchess.Pawn || k == -refchess.Pawn {
			return p, false
		}
		p = p.Make(m)
	}
	return p, true
}

func drawLimits(t *rapid.T, c *Case) {
	c.TT = ttSizes[gen.Draw(t, 0, len(ttSizes)-1, "tt")]
	c.Nodes, c.Depth, c.Soft = -1, 0, 0
	switch gen.Draw(t, 0, 5, "limitKind") {
	case 0: // depth only: runs to completion
		c.Depth = gen.Draw(t, 1, 5, "depth")
	case 1: // hard budget = abort point
		c.Nodes = gen.Draw(t, 0, 3000, "nodes")
	case 2:
		c.Nodes = gen.Draw(t, 0, 3000, "nodes")
		c.Depth = gen.Draw(t, 1, 8, "depth")
	case 3:
		c.Soft = gen.Draw(t, 1, 2000, "soft")
		c.Nodes = gen.Draw(t, 0, 6000, "nodes")
	case 4:
		c.Soft = gen.Draw(t, 1, 1500, "soft")
		c.Depth = gen.Draw(t, 1, 7, "depth")
	default:
		c.Depth = gen.Draw(t, 1, 6, "depth")
		c.Nodes = gen.Draw(t, 0, 20000, "nodes")
		c.Soft = gen.Draw(t, 0, 3000, "soft")
	}
	if gen.Chance(t, 1, 8, "softTime") {
		c.SoftMs = gen.Draw(t, 1, 4, "softMs")
		if c.Nodes < 0 {
			c.Nodes = 30000
		}
	}
	switch gen.Draw(t, 0, 9, "stop") {
	case 0:
		c.Stop = "before"
	case 1:
		c.Stop = fmt.Sprintf("info:%d", gen.Draw(t, 0, 4, "j"))
		if c.Nodes < 0 && c.Depth == 0 {
			c.Depth = 6
		}
	case 2:
		c.Stop = fmt.Sprintf("timer:%d", gen.Draw(t, 0, 3000, "us"))
		if c.Nodes < 0 && c.Depth == 0 {
			c.Nodes = 20000
		}
	}
	if c.Nodes < 0 && c.Depth == 0 {
		c.Depth = 4
	}
	if c.Stop == "" && gen.Chance(t, 1, 8, "ponder") {
		if gen.Chance(t, 1, 2, "queued") {
			c.Ponder = "queued"
		} else {
			c.Ponder = fmt.Sprintf("hit:%d", gen.Draw(t, 0, 3, "hitAfter"))
			if c.TT < 128*1024 {
				c.TT = 128 * 1024
			}
			if c.Depth == 0 || c.Depth > 6 {
				c.Depth = gen.Draw(t, 1, 6, "pdepth")
			}
		}
	}
	if strings.HasPrefix(c.Stop, "info:") && c.TT < 128*1024 {
		c.TT = 128 * 1024 // info lines report HashFull, which needs a table of at least 1000 buckets (documented); 128 KiB leaves room for larger buckets
	}
}

var spsaRe = regexp.MustCompile(`option name (\S+) type spin default (-?\d+) min (-?\d+) max (-?\d+)`)

func drawParams(t *rapid.T) []string {
	var res []string
	for _, m := range spsaRe.FindAllStringSubmatch(params.UCIOptions(), -1) {
		lo, _ := strconv.Atoi(m[3])
		hi, _ := strconv.Atoi(m[4])
		res = append(res, fmt.Sprintf("%s=%d", m[1], gen.Draw(t, lo, hi, m[1])))
	}
	return res
}

func drawGoArgs(t *rapid.T) string {
	vals := []string{"1", "2", "3", "5", "8", "63", "64", "65", "100", "127", "128", "129", "200", "255", "256", "257", "511", "512", "1000", "65536", "2147483647", "2147483648", "4294967296", "9223372036854775807"}
	odd := []string{"0", "-1", "-128", "abc", "", "9223372036854775808", "1e3", "0x10", "+5", "99999999999999999999999"}
	pick := func(label string) string {
		if gen.Chance(t, 1, 8, "odd"+label) {
			return odd[gen.Draw(t, 0, len(odd)-1, "oddv"+label)]
		}
		return vals[gen.Draw(t, 0, len(vals)-1, "v"+label)]
	}
	var parts []string
	if gen.Chance(t, 2, 3, "depth") {
		parts = append(parts, "depth "+pick("depth"))
	}
	if gen.Chance(t, 1, 4, "clock") {
		parts = append(parts, "wtime "+pick("wt"), "btime "+pick("bt"))
		if gen.Chance(t, 1, 2, "inc") {
			parts = append(parts, "winc "+pick("wi"), "binc "+pick("bi"))
		}
	}
	if gen.Chance(t, 1, 5, "movetime") {
		parts = append(parts, "movetime "+[]string{"1", "5", "20", "50"}[gen.Draw(t, 0, 3, "mt")])
	}
	if gen.Chance(t, 1, 10, "ponder") {
		parts = append(parts, "ponder")
	}
	// keep the case finite and fast: a node bound unless drawn otherwise
	if gen.Chance(t, 9, 10, "nodes") {
		parts = append(parts, "nodes "+strconv.Itoa(gen.Draw(t, 1, 4000, "nodes")))
	} else if gen.Chance(t, 1, 2, "oddNodes") {
		parts = append(parts, "nodes "+pick("nodes"))
	}
	if len(parts) == 0 {
		parts = append(parts, "depth 3")
	}
	return strings.Join(parts, " ")
}

func TestC06(t *testing.T) {
	evid.Main(t, "C06", func(rec *evid.Rec) {
		spsa := params.UCIOptions() != ""
		knownRec = rec
		rec.Rule("roots with game history (playouts, repetition-prone histories, clock 96..108, boxed-king mates/stalemates/single replies, suite/bench/synthetic/motif) x limit combinations (depth 1..8, hard node budget k as abort point, soft nodes) x table sizes {32 B, 64 B, 3200 B, 32 KB, 1 MB} x stop channel {none, closed before the call, closed from inside the j-th info line, closed by a timer}; engine instances reused without Clear; abort sweeps: every k in 0..K (K=400 quick, 4000 thorough) as WithNodes(k) on drawn roots; UCI leg: `go` with generated numeric arguments (depth up to 2^63-1, clocks, movetime, nodes, malformed values) on the real driver. Oracle: returned move is null or in the reference legal set; null only if the reference says the root is final (no legal move, clock>=100, third occurrence); a completed search on a final root returns (null, 0) or (null, mated); deep snapshot of the board before == after; node budget respected; a follow-up search on the same instance works. Non-trivial = abort fired inside an iteration, or the root is final / single-reply, or a well-formed UCI go; distinct by (root, history, limits)")
		rec.Assume("reference rules and position identity from verif/refchess; snapshot hook board.VerifSnapshot")
		if spsa {
			rec.Note("spsa build: tunable parameters set to drawn in-range values through params.Set")
		}
		rec.Rapid(t, "search", evid.Pick(40000, 600000), func(t *rapid.T) {
			c := drawRoot(t, rec)
			drawLimits(t, &c)
			if gen.Chance(t, 1, 4, "warm") { // earlier searches of the same game leave their traces in the tables
				w := Case{FEN: c.FEN, Moves: c.Moves[:len(c.Moves)/2], Depth: gen.Draw(t, 1, 4, "wd"), Nodes: gen.Draw(t, 0, 2000, "wn")}
				c.Warm = []Case{w}
			}
			if spsa {
				c.Params = drawParams(t)
			}
			if rec.WantSample("search") {
				rec.Sample("search", c)
			}
			if err := one(c, rec); err != nil {
				rec.Fail("search", err.Error(), withHistory(c))
				t.Fatalf("%v", err)
			}
		})
		rec.Rapid(t, "abort_sweep", evid.Pick(256, 1600), func(t *rapid.T) {
			c := drawRoot(t, rec)
			c.TT = ttSizes[gen.Draw(t, 0, len(ttSizes)-1, "tt")]
			c.Depth = 0
			if gen.Chance(t, 1, 3, "depth") {
				c.Depth = gen.Draw(t, 2, 8, "depth")
			}
			if spsa {
				c.Params = drawParams(t)
			}
			c.SweepK = evid.Pick(400, 4000)
			if err := one(c, rec); err != nil {
				rec.Fail("abort_sweep", err.Error(), withHistory(c))
				t.Fatalf("%v", err)
			}
			rec.Class("sweep_roots")
		})
		rec.Rapid(t, "foreign_table_move", evid.Pick(6000, 200000), func(t *rapid.T) {
			// C05's consequence seen at the search: a move remembered for another position under a colliding key
			// is never played or returned unless it is a genuine move of the root
			c := drawRoot(t, rec)
			c.Warm, c.Stop, c.Ponder, c.SoftMs = nil, "", "", 0
			c.TT = ttSizes[gen.Draw(t, 0, len(ttSizes)-1, "tt")]
			c.Depth, c.Nodes, c.Soft = gen.Draw(t, 1, 4, "depth"), -1, 0
			if gen.Chance(t, 2, 3, "abortEarly") {
				c.Nodes = gen.Draw(t, 0, 40, "nodes") // aborted within the first iterations: the fall-back paths
			}
			f := &Foreign{Depth: gen.Draw(t, 0, 63, "fdepth"), Type: gen.Draw(t, 0, 2, "ftype"), Gen: gen.Draw(t, 0, 255, "fgen"), Score: gen.Draw(t, -300, 300, "fscore")}
			if gen.Chance(t, 1, 2, "otherPositionsMove") {
				other, _ := gen.Root(t)
				if legal := other.Legal(); len(legal) > 0 {
					f.Move = int(eng.Enc(legal[gen.Draw(t, 0, len(legal)-1, "fmove")]))
				}
			} else {
				f.Move = gen.Draw(t, 0, 1<<15-1, "fenc")
			}
			c.Foreign = f
			rec.Class("foreign_entry_under_the_root_key")
			if err := one(c, rec); err != nil {
				rec.Fail("foreign_table_move", err.Error(), withHistory(c))
				t.Fatalf("%v", err)
			}
		})
		if !spsa {
			rec.Rapid(t, "uci_go", evid.Pick(6000, 60000), func(t *rapid.T) {
				c := drawRoot(t, rec)
				c.GoArgs = drawGoArgs(t)
				if c.Before = gen.EarlierPositions(t, c.FEN, c.FEN == gen.StartFEN, c.Moves); len(c.Before) > 0 {
					rec.Class("uci_earlier_position_commands")
				}
				if rec.WantSample("uci_go") {
					rec.Sample("uci_go", c)
				}
				if err := one(c, rec); err != nil {
					rec.Fail("uci_go", err.Error(), c)
					t.Fatalf("%v", err)
				}
			})
		}
	}, func(check string, raw json.RawMessage) error {
		var c Case
		if err := json.Unmarshal(raw, &c); err != nil {
			return err
		}
		knownRec = evid.Open("C06") // listed known findings stay classified in replays too
		return one(c, nil)
	})
}
