// C07 - reported variations are legal lines and agree with the move played.
package c07

import (
	"encoding/json"
	"fmt"
	"os"
	"regexp"
	"sort"
	"strings"
	"testing"
	"time"

	"github.com/paulsonkoly/chess-3/chess"
	"github.com/paulsonkoly/chess-3/search"
	"pgregory.net/rapid"

	"verif/eng"
	"verif/evid"
	"verif/gen"
	"verif/refchess"
	"verif/srch"
)

// Step is one search of a game followed by the move that is played.
type Step struct {
	Depth int `json:"depth"`
	Nodes int `json:"nodes"` // -1 none
	Soft  int `json:"soft"`
	Pick  int `json:"pick"` // -1: play the engine's move; otherwise index into the sorted legal moves (mod len)
	// PonderHit > 0: the search starts as a ponder search and the ponderhit is delivered from inside the
	// PonderHit-th info line (limits apply from then on)
	PonderHit int `json:"ponderhit,omitempty"`
}

// Case: a game fragment searched with one engine instance whose tables carry over.
type Case struct {
	FEN   string   `json:"fen"`
	Moves []string `json:"moves,omitempty"`
	TT    int      `json:"tt"`
	Steps []Step   `json:"steps"`
	UCI   bool     `json:"uci,omitempty"`
	// Before (UCI leg): conforming position / ucinewgame lines sent on the same driver first (gen.EarlierPositions)
	Before []string `json:"before,omitempty"`
}

// replayPV plays pv on the reference from p; returns an error naming the first illegal move.
func replayPV(p refchess.Pos, pv []string) error {
	for i, s := range pv {
		m, err := refchess.ParseMove(s)
		if err != nil {
			return fmt.Errorf("pv move %d %q unreadable", i, s)
		}
		ok := false
		for _, l := range p.Legal() {
			if l == m {
				ok = true
				break
			}
		}
		if !ok {
			return fmt.Errorf("pv move %d (%s) of [%s] is not legal in %s", i, s, strings.Join(pv, " "), p.FEN())
		}
		p = p.Make(m)
	}
	return nil
}

// judge checks all clauses on the output of one search from p.
func judge(p refchess.Pos, r srch.Result, rec *evid.Rec, warmed bool) error {
	if r.BadLine != "" {
		return fmt.Errorf("info line whose depth / nodes / pv cannot be read (pv tokens must be moves): %q", r.BadLine)
	}
	lastDepth, lastNodes := -1, 0
	var lastPV []string
	full, long := 0, false
	for _, l := range r.Lines {
		if l.Nodes < lastNodes {
			return fmt.Errorf("reported node count decreases: %d after %d in\n%s", l.Nodes, lastNodes, r.Raw)
		}
		lastNodes = l.Nodes
		if l.Abort {
			continue
		}
		full++
		if l.Depth <= lastDepth {
			return fmt.Errorf("reported depth does not increase: %d after %d in\n%s", l.Depth, lastDepth, r.Raw)
		}
		lastDepth = l.Depth
		if err := replayPV(p, l.PV); err != nil {
			return fmt.Errorf("%v (line %q)", err, l.Raw)
		}
		if len(l.PV) > 0 {
			lastPV = l.PV
		}
		if len(l.PV) >= 2 {
			long = true
		}
		if len(l.PV) >= 46 && rec != nil {
			rec.Class("pv_of_46_or_more_plies")
		}
	}
	if lastPV != nil && r.Move.String() != lastPV[0] {
		return fmt.Errorf("returned move %v is not the first move of the last reported variation [%s]\n%s", r.Move, strings.Join(lastPV, " "), r.Raw)
	}
	if r.Ponder != 0 {
		if r.Move == 0 {
			return fmt.Errorf("ponder move %v without a move", r.Ponder)
		}
		if err := replayPV(p, []string{r.Move.String(), r.Ponder.String()}); err != nil {
			return fmt.Errorf("ponder move: %v\n%s", err, r.Raw)
		}
	}
	if rec != nil {
		rec.Eval(1)
		if full >= 2 && long {
			rec.Class("multi_line_long_pv")
			if warmed {
				rec.Class("nontrivial_on_warmed_or_tiny_table")
			}
		}
		if r.Ponder != 0 {
			rec.Class("ponder_move_given")
		}
		for _, l := range r.Lines {
			if l.Abort {
				rec.Class("aborted_with_debug_line")
				break
			}
		}
	}
	return nil
}

// hitWriter delivers the ponderhit once `after` lines have been written.
type hitWriter struct {
	inner *strings.Builder
	after int
	seen  int
	ch    chan time.Time
	sent  bool
}

func (w *hitWriter) Write(p []byte) (int, error) {
	w.seen++
	if w.seen >= w.after && !w.sent {
		w.sent = true
		w.ch <- time.Now()
	}
	return w.inner.Write(p)
}

var bestRe = regexp.MustCompile(`^bestmove (\S+)( ponder (\S+))?$`)

func checkCase(c Case, rec *evid.Rec) (err error) {
	defer func() {
		if r := recover(); r != nil {
			err = fmt.Errorf("panic: %v", r)
		}
	}()
	p, err := refchess.ParseFEN(c.FEN)
	if err != nil {
		return err
	}
	b, err := eng.FromRef(&p)
	if err != nil {
		return fmt.Errorf("engine rejects valid FEN %q: %v", c.FEN, err)
	}
	played := append([]string{}, c.Moves...)
	for _, s := range c.Moves {
		m, err := refchess.ParseMove(s)
		if err != nil {
			return err
		}
		b.MakeMove(eng.Enc(m))
		p = p.Make(m)
	}
	var ses *eng.Session
	var s *search.Search
	if c.UCI {
		ses = eng.NewSession()
		ses.Send("setoption name Ponder value true")
		for _, l := range c.Before {
			ses.Send(l)
		}
		defer ses.Quit(30 * time.Second)
	} else {
		s = search.New(c.TT)
	}
	for i, st := range c.Steps {
		legal := p.Legal()
		if len(legal) == 0 || p.Half >= 100 {
			return nil // the property is about non-final roots
		}
		var r srch.Result
		if c.UCI {
			cmd := "position fen " + c.FEN
			if c.FEN == gen.StartFEN {
				cmd = "position startpos"
			}
			if len(played) > 0 {
				cmd += " moves " + strings.Join(played, " ")
			}
			ses.Send(cmd)
			before := len(ses.Lines())
			line, ok := ses.Ask(fmt.Sprintf("go depth %d nodes %d", st.Depth, max(st.Nodes, 1)), "bestmove", 120*time.Second)
			if !ok {
				fmt.Println("INFRA-ERROR no bestmove within 120 s")
				os.Exit(2)
			}
			m := bestRe.FindStringSubmatch(line)
			if m == nil {
				return fmt.Errorf("malformed bestmove line %q", line)
			}
			out := ses.Lines()[before:]
			r.Raw = strings.Join(out[:len(out)-1], "\n") + "\n"
			r.Lines, r.BadLine = srch.Parse(r.Raw)
			if m[1] != "0000" {
				bm, err := refchess.ParseMove(m[1])
				if err != nil {
					return fmt.Errorf("malformed bestmove line %q", line)
				}
				r.Move = eng.Enc(bm)
			}
			if m[3] != "" {
				pm, err := refchess.ParseMove(m[3])
				if err != nil {
					return fmt.Errorf("malformed bestmove line %q", line)
				}
				r.Ponder = eng.Enc(pm)
			}
			if rec != nil {
				rec.Class("uci_search")
			}
		} else {
			var opts []search.Option
			if st.Depth > 0 {
				opts = append(opts, search.WithDepth(chess.Depth(st.Depth)))
			}
			if st.Nodes >= 0 {
				opts = append(opts, search.WithNodes(st.Nodes))
			}
			if st.Soft > 0 {
				opts = append(opts, search.WithSoftNodes(st.Soft))
			}
			if st.PonderHit > 0 {
				ph := make(chan time.Time, 1)
				var buf strings.Builder
				pw := &hitWriter{inner: &buf, after: st.PonderHit, ch: ph}
				cnt := search.Counters{}
				opts = append(opts, search.WithPonderHit(ph), search.WithOutput(pw), search.WithCounters(&cnt))
				sc, m, pm := s.Go(b, opts...)
				r = srch.Result{Score: sc, Move: m, Ponder: pm, Nodes: cnt.Nodes, Raw: buf.String()}
				r.Lines, r.BadLine = srch.Parse(r.Raw)
				if rec != nil {
					rec.Class("ponderhit_mid_search")
				}
			} else {
				r = srch.Run(s, b, false, opts...)
			}
		}
		warmed := i > 0 || c.TT <= 128*1024
		// the third-occurrence rule makes a root final too; skip those (C06 owns them)
		if err := judge(p, r, rec, warmed); err != nil {
			return fmt.Errorf("search %d (%+v) of the game from %s after %v: %v", i, st, c.FEN, played, err)
		}
		if rec != nil && warmed {
			full := 0
			long := false
			for _, l := range r.Lines {
				if !l.Abort {
					full++
					long = long || len(l.PV) >= 2
				}
			}
			if full >= 2 && long {
				rec.NT(evid.H(c.FEN, played, c.TT, st))
			}
		}
		// play on
		var m refchess.Move
		if st.Pick < 0 && r.Move != 0 {
			m = eng.Dec(r.Move)
		} else {
			refchess.SortMoves(legal)
			m = legal[max(st.Pick, 0)%len(legal)]
		}
		ok := false
		for _, l := range legal {
			ok = ok || l == m
		}
		if !ok {
			return fmt.Errorf("engine move %v is not legal in %s", m, p.FEN())
		}
		b.MakeMove(eng.Enc(m))
		p = p.Make(m)
		played = append(played, m.String())
	}
	return nil
}

func genCase(t *rapid.T) Case {
	root, _ := gen.Root(t)
	if gen.Chance(t, 1, 4, "startpos") {
		root = refchess.MustFEN(gen.StartFEN)
	}
	if root.Half > 60 {
		root.Half = gen.Draw(t, 0, 30, "half")
	}
	c := Case{FEN: root.FEN()}
	gen.Playout(t, root, 12, func(ply int, p *refchess.Pos, legal []refchess.Move, m refchess.Move) bool {
		c.Moves = append(c.Moves, m.String())
		return true
	})
	c.TT = []int{128 * 1024, 128 * 1024, 1 << 20}[gen.Draw(t, 0, 2, "tt")]
	n := gen.Draw(t, 1, 6, "steps")
	for i := 0; i < n; i++ {
		st := Step{Depth: gen.Draw(t, 1, 9, "depth"), Nodes: -1, Pick: -1}
		switch gen.Draw(t, 0, 3, "limit") {
		case 0:
			st.Nodes = gen.Draw(t, 1, 30000, "nodes")
		case 1:
			st.Soft = gen.Draw(t, 1, 8000, "soft")
			st.Nodes = 40000
		default:
			st.Nodes = 40000
		}
		if gen.Chance(t, 1, 4, "pick") {
			st.Pick = gen.Draw(t, 0, 200, "pickIx")
		}
		if gen.Chance(t, 1, 6, "ponder") {
			st.PonderHit = gen.Draw(t, 1, 4, "hitAfter")
			st.Depth = min(st.Depth, 7)
		}
		c.Steps = append(c.Steps, st)
	}
	return c
}

func TestC07(t *testing.T) {
	evid.Main(t, "C07", func(rec *evid.Rec) {
		rec.Rule("game fragments: root (startpos/suite/bench/synthetic/motif + playout history) searched 1..6 times in a row by one engine instance (tables carry over; the engine's move or a drawn legal move is played in between) with depth 1..9, hard/soft node limits, table 32 KB (1024 buckets, heavy collisions: the smallest the info line supports) or 1 MB; through search.Go with captured output and through the real UCI driver with Ponder enabled. Oracle (info lines are read tolerantly: any field order, unknown fields ignored; only depth, nodes and pv are used, and a pv token that is not a move is a violation): every reported pv replays legally on the reference from the root; depths strictly increase, node counts never decrease; the returned move is the first move of the last non-empty pv; a non-null ponder move is legal after it. Non-trivial = search on a warmed or 32 KB table reporting >=2 full lines with a pv of length >=2; distinct by (game prefix, table, limits)")
		rec.Assume("reference rules from verif/refchess; roots whose game is already over are skipped (C06 owns them)")
		keys := func(c Case) []string { return []string{"game"} }
		_ = keys
		_ = sort.Strings
		rec.Rapid(t, "game", evid.Pick(15000, 200000), func(t *rapid.T) {
			c := genCase(t)
			if rec.WantSample("game") {
				rec.Sample("game", c)
			}
			if err := checkCase(c, rec); err != nil {
				rec.Fail("game", err.Error(), c)
				t.Fatalf("%v", err)
			}
		})
		rec.Rapid(t, "deep_pv", evid.Pick(96, 1200), func(t *rapid.T) {
			// very deep searches on tiny endgames: variations of 40..63 plies exercise the far end of the pv buffer
			var p refchess.Pos
			for i := 0; i < 8; i++ {
				p = gen.Synthetic(t)
				n := 0
				for _, c := range p.Sq {
					if c != 0 {
						n++
					}
				}
				if n <= 4 && len(p.Legal()) > 0 {
					break
				}
				p = refchess.MustFEN("k7/8/7K/8/8/8/P7/8 w - - 0 1")
			}
			p.Half = 0
			c := Case{FEN: p.FEN(), TT: 16 << 20, Steps: []Step{{Depth: gen.Draw(t, 48, 63, "depth"), Nodes: evid.Pick(2500000, 6000000), Pick: -1}}}
			rec.Class("deep_pv_search")
			if err := checkCase(c, rec); err != nil {
				rec.Fail("deep_pv", err.Error(), c)
				t.Fatalf("%v", err)
			}
		})
		rec.Rapid(t, "uci", evid.Pick(2000, 20000), func(t *rapid.T) {
			c := genCase(t)
			c.UCI = true
			for i := range c.Steps {
				c.Steps[i].Depth = min(c.Steps[i].Depth, 7)
				c.Steps[i].Nodes = gen.Draw(t, 50, 20000, "nodes")
			}
			if c.Before = gen.EarlierPositions(t, c.FEN, c.FEN == gen.StartFEN, c.Moves); len(c.Before) > 0 {
				rec.Class("uci_earlier_position_commands")
			}
			if rec.WantSample("uci") {
				rec.Sample("uci", c)
			}
			if err := checkCase(c, rec); err != nil {
				rec.Fail("uci", err.Error(), c)
				t.Fatalf("%v", err)
			}
		})
	}, func(check string, raw json.RawMessage) error {
		var c Case
		if err := json.Unmarshal(raw, &c); err != nil {
			return err
		}
		return checkCase(c, nil)
	})
}
