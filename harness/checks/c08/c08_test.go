// C08 - search is reproducible and never overspends its node budget.
package c08

import (
	"encoding/json"
	"fmt"
	"runtime"
	"sync"
	"testing"

	"github.com/paulsonkoly/chess-3/board"
	"github.com/paulsonkoly/chess-3/chess"
	"github.com/paulsonkoly/chess-3/search"
	"pgregory.net/rapid"

	"verif/eng"
	"verif/evid"
	"verif/gen"
	"verif/refchess"
	"verif/srch"
)

// Step holds the limits of one move's search.
type Step struct {
	Depth int `json:"depth"`
	Soft  int `json:"soft"` // 0 none
	Hard  int `json:"hard"` // -1 none
	// PonderAt > 0: a ponder search whose ponderhit arrives while info line number PonderAt-1 is written; the
	// limits count from the ponderhit on, but the node counter may never pass the hard budget
	PonderAt int `json:"ponder_at,omitempty"`
}

// Case: a game played by the engine against itself from the position after Moves; tables carry over.
type Case struct {
	FEN   string   `json:"fen"`
	Moves []string `json:"moves,omitempty"`
	TT    int      `json:"tt"`
	Steps []Step   `json:"steps"`
	Load  bool     `json:"load"`
	// Other: sizes an unrelated fourth engine instance in the same process is created with / resized to
	// around each move (0 = leave it alone); it also searches. It must not influence A, A' or B.
	Other []int `json:"other,omitempty"`
	// Plain: searches are started the way the UCI driver starts them, without a Counters option
	Plain bool `json:"plain,omitempty"`
	// Used: before the game the second engine (A') searches these positions and is then Clear()-ed, as after
	// ucinewgame; a cleared engine must behave like a fresh one
	Used []string `json:"used,omitempty"`
}

func opts(st Step) []search.Option {
	o := []search.Option{search.WithDepth(chess.Depth(st.Depth))}
	if st.Soft > 0 {
		o = append(o, search.WithSoftNodes(st.Soft))
	}
	if st.Hard >= 0 {
		o = append(o, search.WithNodes(st.Hard))
	}
	return o
}

// lineKey is what the property is about on one reported line: depth, score, node count and variation
// (not the time, nps or any other wall-clock dependent field).
func lineKey(l srch.Info) string {
	return fmt.Sprintf("abort=%v depth=%d score=%s nodes=%d pv=%v", l.Abort, l.Depth, l.Score, l.Nodes, l.PV)
}

func same(a, b srch.Result, allowTrailingAbort bool) string {
	if a.Score != b.Score || a.Move != b.Move || a.Ponder != b.Ponder {
		return fmt.Sprintf("results differ: %s vs %s", a.Describe(), b.Describe())
	}
	la, lb := a.Lines, b.Lines
	if allowTrailingAbort && len(lb) == len(la)+1 && lb[len(lb)-1].Abort {
		lb = lb[:len(lb)-1]
	} else if a.Nodes != b.Nodes {
		return fmt.Sprintf("node counts differ: %d vs %d", a.Nodes, b.Nodes)
	}
	if len(la) != len(lb) {
		return fmt.Sprintf("info lines differ in number:\n%s---\n%s", a.Raw, b.Raw)
	}
	for i := range la {
		if lineKey(la[i]) != lineKey(lb[i]) {
			return fmt.Sprintf("info lines differ:\n%s---\n%s", a.Raw, b.Raw)
		}
	}
	return ""
}

// Two worker goroutines run the paired searches and GOMAXPROCS loader goroutines produce scheduling and GC
// pressure while a case asks for it. They live for the whole process: under the race detector every new
// goroutine costs memory that is not given back, and a long run used to exhaust the machine.
var (
	poolOnce sync.Once
	jobs     = make(chan func())
	loadMu   sync.Mutex
	loadCond = sync.NewCond(&loadMu)
	loadOn   bool
)

func setLoad(on bool) {
	loadMu.Lock()
	loadOn = on
	loadMu.Unlock()
	loadCond.Broadcast()
}

func startPool() {
	for i := 0; i < 2; i++ {
		go func() {
			for f := range jobs {
				f()
			}
		}()
	}
	for i := 0; i < runtime.GOMAXPROCS(0); i++ {
		go func() {
			var sink [][]byte
			for n := 0; ; n++ {
				if n%64 == 0 {
					loadMu.Lock()
					for !loadOn {
						loadCond.Wait()
					}
					loadMu.Unlock()
					sink = append(sink[:0], make([]byte, 1<<12))
					runtime.Gosched()
				}
			}
		}()
	}
}

func mkBoard(c Case) (*board.Board, refchess.Pos, error) {
	p, err := refchess.ParseFEN(c.FEN)
	if err != nil {
		return nil, p, err
	}
	b, err := eng.FromRef(&p)
	if err != nil {
		return nil, p, fmt.Errorf("engine rejects valid FEN %q: %v", c.FEN, err)
	}
	for _, s := range c.Moves {
		m, err := refchess.ParseMove(s)
		if err != nil {
			return nil, p, err
		}
		b.MakeMove(eng.Enc(m))
		p = p.Make(m)
	}
	return b, p, nil
}

func checkCase(c Case, rec *evid.Rec) (err error) {
	defer func() {
		if r := recover(); r != nil {
			err = fmt.Errorf("panic: %v", r)
		}
	}()
	bA, p, err := mkBoard(c)
	if err != nil {
		return err
	}
	bA2, _, _ := mkBoard(c)
	bB, _, _ := mkBoard(c)
	sA, sA2 := search.New(c.TT), search.New(c.TT)
	for _, fen := range c.Used {
		if ub, err := board.FromFEN(fen); err == nil {
			srch.Run(sA2, ub, true, search.WithDepth(6), search.WithNodes(12000))
		}
	}
	if len(c.Used) > 0 {
		sA2.Clear()
		if rec != nil {
			rec.Class("twin_engine_used_then_cleared")
		}
	}
	var sX *search.Search
	if len(c.Other) > 0 && c.Other[0] > 0 {
		sX = search.New(c.Other[0])
	}
	sB := search.New(c.TT)
	bX, _, _ := mkBoard(c)

	// machine load while A and A' run concurrently (persistent goroutines: see pool below)
	poolOnce.Do(startPool)
	if c.Load {
		setLoad(true)
		defer setLoad(false)
	}

	for i, st := range c.Steps {
		if len(p.Legal()) == 0 || p.Half >= 100 {
			break
		}
		var rA, rA2 srch.Result
		var wg sync.WaitGroup
		wg.Add(2)
		run := func(s *search.Search, b *board.Board, o []search.Option) srch.Result {
			if st.PonderAt > 0 {
				return srch.RunPonder(s, b, st.PonderAt-1, o...)
			}
			if c.Plain {
				return srch.RunPlain(s, b, o...)
			}
			return srch.Run(s, b, false, o...)
		}
		jobs <- func() { defer wg.Done(); rA = run(sA, bA, opts(st)) }
		jobs <- func() { defer wg.Done(); rA2 = run(sA2, bA2, opts(st)) }
		wg.Wait()
		where := fmt.Sprintf("move %d (%+v) of the game from %s after %v, table %d", i, st, c.FEN, c.Moves, c.TT)
		if st.Hard >= 0 && (rA.Nodes > st.Hard || rA2.Nodes > st.Hard) {
			return fmt.Errorf("%s: %d nodes spent with a hard budget of %d", where, max(rA.Nodes, rA2.Nodes), st.Hard)
		}
		if rA.LateHit || rA2.LateHit {
			// the ponderhit came from the watchdog's clock: nothing to compare on this move
			if rec != nil {
				rec.Class("ponderhit_by_watchdog")
			}
			break
		}
		if d := same(rA, rA2, false); d != "" {
			return fmt.Errorf("%s: two engines in the same state given the same request: %s", where, d)
		}
		// did A end at its soft limit?
		endedSoft := false
		if st.Soft > 0 && rA.Move != 0 && len(rA.Lines) > 0 {
			last := rA.Lines[len(rA.Lines)-1]
			endedSoft = !last.Abort && rA.Nodes > st.Soft && last.Depth < st.Depth
		}
		stB := st
		if endedSoft {
			stB = Step{Depth: st.Depth, Soft: 0, Hard: rA.Nodes}
		}
		if i+1 < len(c.Other) && c.Other[i+1] > 0 {
			// the unrelated instance is resized and searches between A's search and B's replay
			if sX == nil {
				sX = search.New(c.Other[i+1])
			} else {
				sX.ResizeTT(c.Other[i+1])
				sX.Clear()
			}
			srch.Run(sX, bX, true, search.WithDepth(3), search.WithNodes(300))
			if rec != nil {
				rec.Class("unrelated_instance_resized_between_searches")
			}
		}
		rB := run(sB, bB, opts(stB))
		if rB.Nodes > max(stB.Hard, 0) && stB.Hard >= 0 {
			return fmt.Errorf("%s: replay spent %d nodes with a hard budget of %d", where, rB.Nodes, stB.Hard)
		}
		if rA.Move != 0 { // precondition of the replay clause: the soft-limited search returned a move
			if d := same(rA, rB, endedSoft); d != "" {
				what := "identical request on a third engine"
				if endedSoft {
					what = fmt.Sprintf("soft-limited search ended after %d nodes, replay with hard budget %d", rA.Nodes, rA.Nodes)
				}
				return fmt.Errorf("%s: %s: %s", where, what, d)
			}
		}
		if rec != nil {
			rec.Eval(1)
			if endedSoft {
				rec.Class("ended_at_soft_limit_replayed_with_hard_budget")
			}
			if i > 0 && rA.Nodes > 500 {
				rec.Class("warmed_table_>500_nodes")
				rec.NT(evid.H(c.FEN, c.Moves, c.TT, c.Steps[:i+1]))
			}
			if len(rA.Lines) > 0 && rA.Lines[len(rA.Lines)-1].Abort {
				rec.Class("ended_at_hard_budget")
			}
			if st.PonderAt > 0 {
				rec.Class("ponder_search_with_hard_budget")
			}
		}
		if rA.Move == 0 {
			break
		}
		m := eng.Dec(rA.Move)
		ok := false
		for _, l := range p.Legal() {
			ok = ok || l == m
		}
		if !ok {
			return fmt.Errorf("%s: engine move %v is not legal", where, m)
		}
		for _, b := range []*board.Board{bA, bA2, bB} {
			b.MakeMove(rA.Move)
		}
		p = p.Make(m)
	}
	return nil
}

func TestC08(t *testing.T) {
	evid.Main(t, "C08", func(rec *evid.Rec) {
		rec.Rule("whole games (root + playout history, then up to 24 (quick) / 60 (thorough) engine moves) with drawn per-move limits (depth 1..10, soft nodes, hard nodes); three engine instances per game whose tables carry over: A and A' get identical requests and run CONCURRENTLY on separate goroutines while GOMAXPROCS busy goroutines load the machine (thorough: race detector on); B gets WithNodes(N_A) whenever A's search ended at its soft limit after N_A nodes, otherwise the same request. Oracle: A == A' in score, move, ponder, node count and every info line (compared by depth, score, node count and variation; wall-clock dependent fields such as time or nps are not compared); B == A likewise (its single trailing abort line excepted) on this and all later moves; Counters.Nodes <= hard budget always, also for ponder searches (one step in eight is `go ponder` with a node budget, the ponderhit arriving from inside the writing of info line 0..4); in half of the games an unrelated fourth engine instance with a different table size is created, resized and searched in the same process between A's search and B's replay (results are a function of the engine's OWN state only). The replay clause is judged only when A returned a move. Non-trivial = search on a warmed table with > 500 nodes; distinct by (game prefix, table, limits)")
		rec.Assume("SoftTime is not used: wall-clock limits are non-deterministic by design and outside this property")
		rec.Rapid(t, "game", evid.Pick(2500, 8000), func(t *rapid.T) {
			root, _ := gen.Root(t)
			if gen.Chance(t, 1, 3, "startpos") {
				root = refchess.MustFEN(gen.StartFEN)
			}
			if root.Half > 40 {
				root.Half = gen.Draw(t, 0, 20, "half")
			}
			c := Case{FEN: root.FEN(), TT: []int{128 * 1024, 1 << 20}[gen.Draw(t, 0, 1, "tt")], Load: gen.Chance(t, 2, 3, "load")}
			gen.Playout(t, root, 10, func(ply int, p *refchess.Pos, legal []refchess.Move, m refchess.Move) bool {
				c.Moves = append(c.Moves, m.String())
				return true
			})
			n := gen.Draw(t, 2, evid.Pick(24, 60), "moves")
			for i := 0; i < n; i++ {
				st := Step{Depth: gen.Draw(t, 1, 10, "depth"), Hard: -1}
				switch gen.Draw(t, 0, 3, "limit") {
				case 0, 1:
					st.Soft = gen.Draw(t, 1, 6000, "soft")
					st.Hard = 30000
				case 2:
					st.Hard = gen.Draw(t, 0, 8000, "hard")
				default:
					st.Depth = gen.Draw(t, 1, 6, "depth")
					st.Hard = 30000
				}
				if gen.Chance(t, 1, 8, "ponder") { // `go ponder nodes N`: no soft limit, a budget the ponder phase can exhaust
					st = Step{Depth: gen.Draw(t, 1, 6, "depth"), Hard: gen.Draw(t, 0, 3000, "hard"), PonderAt: gen.Draw(t, 1, 5, "ponderAt")}
				}
				c.Steps = append(c.Steps, st)
			}
			c.Plain = gen.Chance(t, 1, 3, "plain")
			if gen.Chance(t, 1, 3, "used") {
				for k := gen.Draw(t, 1, 3, "usedN"); k > 0; k-- {
					u, _ := gen.Root(t)
					u = gen.Playout(t, u, 8, nil)
					if u.Half <= 100 {
						c.Used = append(c.Used, u.FEN())
					}
				}
			}
			if gen.Chance(t, 1, 2, "other") {
				sz := []int{0, 0, 32, 3200, 128 * 1024, 1 << 20, 4 << 20}
				for i := 0; i <= len(c.Steps); i++ {
					c.Other = append(c.Other, sz[gen.Draw(t, 0, len(sz)-1, "otherSize")])
				}
			}
			if rec.WantSample("game") {
				rec.Sample("game", c)
			}
			if err := checkCase(c, rec); err != nil {
				rec.Fail("game", err.Error(), c)
				t.Fatalf("%v", err)
			}
		})
	}, func(check string, raw json.RawMessage) error {
		var c Case
		if err := json.Unmarshal(raw, &c); err != nil {
			return err
		}
		return checkCase(c, nil)
	})
}
