// C09 - fast checkmate and stalemate tests agree with the absence of legal moves.
package c09

import (
	"encoding/json"
	"fmt"
	"testing"

	"pgregory.net/rapid"

	"verif/eng"
	"verif/evid"
	"verif/gen"
	"verif/refchess"
)

// Case is one position (en-passant field already engine-normalised).
type Case struct {
	FEN    string `json:"fen"`
	Direct bool   `json:"direct,omitempty"`
}

func kingHasFlight(p *refchess.Pos, legal []refchess.Move) bool {
	k := p.KingSq(p.White)
	for _, m := range legal {
		if m.From == k {
			return true
		}
	}
	return false
}

func checkPos(p *refchess.Pos, direct bool, rec *evid.Rec) error {
	var err error
	b := eng.Direct(p)
	if !direct {
		if b, err = eng.FromRef(p); err != nil {
			return fmt.Errorf("engine rejects valid FEN %q: %v", p.FEN(), err)
		}
	}
	legal := p.Legal()
	inCheck := p.InCheck(p.White)
	none := len(legal) == 0
	var got bool
	var what string
	if inCheck {
		got, what = b.IsCheckmate(), "IsCheckmate"
	} else {
		got, what = b.IsStalemate(), "IsStalemate"
	}
	if rec != nil {
		rec.Eval(1)
		flight := kingHasFlight(p, legal)
		if inCheck {
			rec.Class("in_check")
			if len(p.AttackersOf(p.KingSq(p.White), !p.White)) > 1 {
				rec.Class("double_check")
			}
		} else {
			rec.Class("not_in_check")
		}
		if none && inCheck {
			rec.Class("checkmate")
		}
		if none && !inCheck {
			rec.Class("stalemate")
		}
		if !flight || none {
			rec.NT(evid.HS(p.FEN()))
			if !none {
				rec.Class("no_king_flight_but_other_move")
				onlyEP, anyEP := true, false
				for _, m := range legal {
					if p.IsEP(m) {
						anyEP = true
					} else {
						onlyEP = false
					}
				}
				if anyEP && onlyEP {
					rec.Class("only_en_passant_saves")
				}
			}
		}
		if p.EP >= 0 {
			rec.Class("ep_target_present")
		}
	}
	if got != none {
		return fmt.Errorf("%s() = %v but the side to move has %d legal moves in %s", what, got, len(legal), p.FEN())
	}
	return nil
}

func checkCase(c Case, rec *evid.Rec) error {
	p, err := refchess.ParseFEN(c.FEN)
	if err != nil {
		return err
	}
	return checkPos(&p, c.Direct, rec)
}

const (
	P = refchess.Pawn
	N = refchess.Knight
	B = refchess.Bishop
	R = refchess.Rook
	Q = refchess.Queen
)

func TestC09(t *testing.T) {
	evid.Main(t, "C09", func(rec *evid.Rec) {
		rec.Rule("exhaustive tables (boards assembled field by field, no FEN reader): every valid K+X v K position (X in PNBRQ, either colour, either side to move) in both tiers; 4-man classes KQvKR KRvKB KPvKP KQvKP KRvKN KBNvK KQQvK KRRvK KPPvK (complete in thorough, 1/8 slice by white-king square in quick); rapid: boxed-king / pin / promo / castle / battery motifs, dense synthetic placements and positions along playouts with engine-normalised en-passant field. Oracle: reference legal-move count == 0; IsCheckmate asked only in check, IsStalemate only when not. Non-trivial = the king has no legal move (verdict rests on capture/block/pin/en-passant analysis) or the verdict is true; distinct by position")
		rec.Assume("reference rules implementation verif/refchess; en-passant field normalised to 'only when capturable' as the property states")
		shard, n := evid.Shard()
		full := evid.Thorough()
		// complete 3-man tables
		for k := int8(P); k <= Q; k++ {
			for _, col := range []int8{1, -1} {
				if !gen.Enumerate([]int8{k * col}, shard, n, func(p *refchess.Pos) bool {
					if err := checkPos(p, true, rec); err != nil {
						rec.Violate("table", err.Error(), Case{FEN: p.FEN(), Direct: true})
						return false
					}
					return true
				}) {
					return
				}
			}
		}
		rec.Exhaustive("all valid K+X v K positions (X in PNBRQ of either colour, either side to move)")
		classes := [][]int8{{Q, -R}, {R, -B}, {P, -P}, {Q, -P}, {R, -N}, {B, N}, {Q, Q}, {R, R}, {P, P}, {-Q, R}, {-P, -P}, {-B, -N}}
		for ci, cl := range classes {
			sl, of := shard, n
			if !full {
				// quick: a 1/8 slice of each class, spread over the shards
				of = 8 * n
				sl = (shard*8 + ci) % of
			}
			cnt := 0
			if !gen.Enumerate(cl, sl, of, func(p *refchess.Pos) bool {
				cnt++
				if err := checkPos(p, true, rec); err != nil {
					rec.Violate("table", err.Error(), Case{FEN: p.FEN(), Direct: true})
					return false
				}
				return true
			}) {
				return
			}
			rec.ClassN(fmt.Sprintf("table4_class_%d", ci), cnt)
		}
		if full {
			rec.Exhaustive("4-man classes KQvKR KRvKB KPvKP KQvKP KRvKN KBNvK KQQvK KRRvK KPPvK KRvKQ KvKPP KvKBN complete")
		}
		rec.Rapid(t, "generated", evid.Pick(100000, 1500000), func(t *rapid.T) {
			var p refchess.Pos
			label := ""
			switch gen.Draw(t, 0, 9, "family") {
			case 8, 9:
				if q, ok := gen.EPOnlyMotif(t); ok {
					p, label = q, "ep_only"
				}
			case 6, 7:
				if q, ok := gen.BlockMotif(t); ok {
					p, label = q, "block"
				}
			case 0, 1:
				if q, ok := gen.BoxedKingMotif(t); ok {
					p, label = q, "boxed"
				}
			case 2:
				if q, m, name, ok := gen.EPMotif(t); ok {
					p, label = q.Make(m), name
				}
			case 3:
				p, label = gen.Synthetic(t), "synthetic"
			}
			if label == "" {
				p, label = gen.Root(t)
				p = gen.Playout(t, p, 12, nil)
			}
			if gen.Chance(t, 1, 2, "mirror") {
				p = gen.MirrorColors(p)
			}
			p = p.NormEP()
			rec.Class("gen_" + label)
			c := Case{FEN: p.FEN()}
			if len(p.Legal()) == 0 && rec.WantSample("terminal_"+label) {
				rec.Sample("terminal_"+label, c)
			}
			if err := checkPos(&p, false, rec); err != nil {
				rec.Fail("generated", err.Error(), c)
				t.Fatalf("%v", err)
			}
		})
	}, func(check string, raw json.RawMessage) error {
		var c Case
		if err := json.Unmarshal(raw, &c); err != nil {
			return err
		}
		return checkCase(c, nil)
	})
}
