// C10 - repetition count equals true recurrences of the position in the game.
package c10

import (
	"encoding/json"
	"fmt"
	"os"
	"strings"
	"testing"
	"time"

	"github.com/paulsonkoly/chess-3/board"
	"pgregory.net/rapid"

	"verif/eng"
	"verif/evid"
	"verif/gen"
	"verif/refchess"
)

// Case is a start position and the moves of the game.
type Case struct {
	FEN   string   `json:"fen"`
	Moves []string `json:"moves"`
	UCI   bool     `json:"uci,omitempty"`
	// Prefixes (UCI leg): the game is sent the way a GUI sends it, as several position commands with growing
	// move lists (these prefix lengths, then the whole list); NewGame[i] sends ucinewgame before the i-th of them.
	Prefixes []int  `json:"prefixes,omitempty"`
	NewGame  []bool `json:"newgame,omitempty"`
	// Before (uci): conforming position / ucinewgame lines sent on the same driver first (gen.EarlierPositions)
	Before []string `json:"before,omitempty"`
}

const knownKey = "start-fen-raw-ep"

// placementKey ignores rights and en-passant state (to spot the discriminating cases).
func placementKey(p *refchess.Pos) string {
	k := p.Key()
	return k[:65]
}

// checkCase replays the game through MakeMove, comparing Threefold() with the history count after every move.
// It returns (violation, knownFindingHits).
func checkCase(c Case, rec *evid.Rec) (error, int) {
	if c.UCI {
		return checkUCI(c, rec), 0
	}
	p, err := refchess.ParseFEN(c.FEN)
	if err != nil {
		return err, 0
	}
	b, err := eng.FromRef(&p)
	if err != nil {
		return fmt.Errorf("engine rejects valid FEN %q: %v", c.FEN, err), 0
	}
	rawStart := p.EP >= 0 && !p.EPCapturable()
	strict := map[string]int{} // identity as the property defines it
	altCnt := map[string]int{} // same, except that the start position keeps its raw en-passant flag (finding F5)
	placements := map[string]map[string]bool{}
	known := 0
	startAlt := p.Key() + fmt.Sprintf("|rawep%d", p.EP%8)
	for i := 0; ; i++ {
		k := p.Key()
		strict[k]++
		ak := k
		if i == 0 && rawStart {
			ak = startAlt
		}
		altCnt[ak]++
		pk := placementKey(&p)
		if placements[pk] == nil {
			placements[pk] = map[string]bool{}
		}
		placements[pk][k] = true
		want := min(3, strict[k])
		got := int(b.Threefold())
		if rec != nil {
			rec.Eval(1)
			if strict[k] >= 2 {
				rec.Class(fmt.Sprintf("count_%d", want))
				rec.NT(evid.H(c.FEN, strings.Join(c.Moves[:i], " ")))
			}
			if len(placements[pk]) > 1 {
				rec.Class("same_placement_different_rights_or_ep")
				rec.NT(evid.H("discr", c.FEN, strings.Join(c.Moves[:i], " ")))
			}
		}
		if got != want {
			if rawStart && got == min(3, altCnt[ak]) && rec != nil && rec.IsKnownOpen(knownKey) {
				known++
			} else if rawStart && got == min(3, altCnt[ak]) && rec == nil && knownOpenForReplay() {
				known++
			} else {
				return fmt.Errorf("after %d moves %v from %s: Threefold() = %d, the position %s has occurred %d time(s)", i, c.Moves[:i], c.FEN, got, p.FEN(), strict[k]), known
			}
		}
		if i >= len(c.Moves) {
			return nil, known
		}
		m, err := refchess.ParseMove(c.Moves[i])
		if err != nil {
			return err, known
		}
		b.MakeMove(eng.Enc(m))
		p = p.Make(m)
	}
}

func knownOpenForReplay() bool { return evid.Open("C10").IsKnownOpen(knownKey) }

// checkUCI: `position fen F moves ...` + `go depth 2` answers bestmove 0000 exactly when the game is over
// (third occurrence, no legal move, or halfmove clock >= 100).
func checkUCI(c Case, rec *evid.Rec) error {
	p, err := refchess.ParseFEN(c.FEN)
	if err != nil {
		return err
	}
	cnt := map[string]int{}
	cnt[p.Key()]++
	for _, s := range c.Moves {
		m, err := refchess.ParseMove(s)
		if err != nil {
			return err
		}
		p = p.Make(m)
		cnt[p.Key()]++
	}
	third := cnt[p.Key()] >= 3
	final := third || len(p.Legal()) == 0 || p.Half >= 100
	cmd := "position fen " + c.FEN
	if c.FEN == gen.StartFEN && len(c.Moves)%2 == 0 {
		cmd = "position startpos" // the other way of setting up the same history
	}
	if len(c.Moves) > 0 {
		cmd += " moves " + strings.Join(c.Moves, " ")
	}
	// interactive session: quit must not arrive while the search runs (it would abort it)
	ses := eng.NewSession()
	for _, l := range c.Before {
		ses.Send(l)
	}
	base := strings.SplitN(cmd, " moves ", 2)[0]
	for i, k := range c.Prefixes {
		if k < 0 || k > len(c.Moves) {
			continue
		}
		if i < len(c.NewGame) && c.NewGame[i] {
			ses.Send("ucinewgame")
		}
		pc := base
		if k > 0 {
			pc += " moves " + strings.Join(c.Moves[:k], " ")
		}
		ses.Send(pc)
		if rec != nil {
			rec.Class("uci_growing_position_commands")
		}
	}
	if n := len(c.Prefixes); n < len(c.NewGame) && c.NewGame[n] {
		ses.Send("ucinewgame")
	}
	ses.Send(cmd)
	last, ok := ses.Ask("go depth 2", "bestmove", 60*time.Second)
	out := strings.Join(ses.Lines(), "\n")
	if !ses.Quit(60*time.Second) || !ok {
		fmt.Println("INFRA-ERROR uci session did not answer / end in 60 s:", cmd)
		os.Exit(2)
	}
	if rec != nil {
		rec.Eval(1)
		rec.Class("uci_game")
		if third {
			rec.Class("uci_third_occurrence")
			rec.NT(evid.H("uci", c.FEN, c.Moves))
		} else if cnt[p.Key()] == 2 {
			rec.Class("uci_second_occurrence")
			rec.NT(evid.H("uci", c.FEN, c.Moves))
		}
	}
	if !strings.HasPrefix(last, "bestmove ") {
		return fmt.Errorf("no bestmove line after %q: %q", cmd, out)
	}
	null := strings.HasPrefix(last, "bestmove 0000")
	if null != final {
		return fmt.Errorf("%q then `go depth 2` answered %q; reference: occurrences=%d legal=%d halfmove=%d", cmd, last, cnt[p.Key()], len(p.Legal()), p.Half)
	}
	return nil
}

// detour builds: one reversible move out by each side (pieces A, B), then R round trips of two other pieces
// (C, D: out and back, four plies a round), then A and B go home. The root recurs exactly once, at the very end.
func detour(t *rapid.T, root refchess.Pos) ([]string, bool) {
	// a reversible, right-preserving move: not a pawn, not a capture, not a king or rook while rights exist
	pick := func(p *refchess.Pos, not map[int]bool) (refchess.Move, bool) {
		var cand []refchess.Move
		for _, m := range p.Legal() {
			k := p.Sq[m.From]
			if k < 0 {
				k = -k
			}
			if k == refchess.Pawn || p.IsCapture(m) || not[m.From] || not[m.To] {
				continue
			}
			if (k == refchess.King || k == refchess.Rook) && p.Castle != [4]bool{} {
				continue
			}
			cand = append(cand, m)
		}
		if len(cand) == 0 {
			return refchess.Move{}, false
		}
		return cand[gen.Draw(t, 0, len(cand)-1, "dm")], true
	}
	var seq []refchess.Move
	p := root
	play := func(m refchess.Move) bool {
		for _, l := range p.Legal() {
			if l == m {
				seq = append(seq, m)
				p = p.Make(m)
				return true
			}
		}
		return false
	}
	back := func(m refchess.Move) refchess.Move { return refchess.Move{From: m.To, To: m.From} }
	used := map[int]bool{}
	a, ok := pick(&p, used)
	if !ok || !play(a) {
		return nil, false
	}
	used[a.From], used[a.To] = true, true
	b, ok := pick(&p, used)
	if !ok || !play(b) {
		return nil, false
	}
	used[b.From], used[b.To] = true, true
	c, ok := pick(&p, used)
	if !ok || !play(c) {
		return nil, false
	}
	used[c.From], used[c.To] = true, true
	d, ok := pick(&p, used)
	if !ok || !play(d) {
		return nil, false
	}
	if !play(back(c)) || !play(back(d)) {
		return nil, false
	}
	for r := gen.Draw(t, 24, 40, "rounds"); r > 1; r-- {
		if !play(c) || !play(d) || !play(back(c)) || !play(back(d)) {
			return nil, false
		}
	}
	if !play(back(a)) || !play(back(b)) {
		return nil, false
	}
	if p.Key() != root.Key() {
		return nil, false
	}
	res := make([]string, len(seq))
	for i, m := range seq {
		res[i] = m.String()
	}
	return res, true
}

// TwoCase: two games from the initial position advanced in the order given (then each to its end).
type TwoCase struct {
	ViaStartPos [2]bool     `json:"via_startpos"`
	Moves       [2][]string `json:"moves"`
	Order       []int       `json:"order"`
}

func twoGames(c TwoCase, rec *evid.Rec) error {
	var bs [2]*board.Board
	var ps [2]refchess.Pos
	var cnt [2]map[string]int
	var next [2]int
	for g := 0; g < 2; g++ {
		ps[g] = refchess.MustFEN(gen.StartFEN)
		if c.ViaStartPos[g] {
			bs[g] = board.StartPos()
		} else {
			bs[g], _ = board.FromFEN(gen.StartFEN)
		}
		cnt[g] = map[string]int{ps[g].Key(): 1}
	}
	step := func(g int) error {
		if next[g] >= len(c.Moves[g]) {
			return nil
		}
		m, err := refchess.ParseMove(c.Moves[g][next[g]])
		if err != nil {
			return err
		}
		next[g]++
		bs[g].MakeMove(eng.Enc(m))
		ps[g] = ps[g].Make(m)
		cnt[g][ps[g].Key()]++
		for h := 0; h < 2; h++ { // both games are checked after every step of either
			want := min(3, cnt[h][ps[h].Key()])
			if got := int(bs[h].Threefold()); got != want {
				return fmt.Errorf("game %d after %v (other game after %v): Threefold() = %d, the position has occurred %d time(s)", h, c.Moves[h][:next[h]], c.Moves[1-h][:next[1-h]], got, cnt[h][ps[h].Key()])
			}
		}
		if rec != nil {
			rec.Eval(1)
			if cnt[g][ps[g].Key()] >= 2 {
				rec.Class("two_games_recurrence")
				rec.NT(evid.H("two", g, c.Moves[g][:next[g]], c.Moves[1-g][:next[1-g]]))
			}
		}
		return nil
	}
	for _, g := range c.Order {
		if err := step(g); err != nil {
			return err
		}
	}
	for g := 0; g < 2; g++ {
		for next[g] < len(c.Moves[g]) {
			if err := step(g); err != nil {
				return err
			}
		}
	}
	return nil
}

func TestC10(t *testing.T) {
	evid.Main(t, "C10", func(rec *evid.Rec) {
		rec.Rule("model-based histories: start = suite/bench/synthetic/motif root (FEN-loaded, hash history reset, en-passant field engine-normalised), then up to 200 generated steps from the actions {reverse my move of two plies ago, replay the last 4-ply cycle, irreversible move, double push/castle/promotion, king/rook/knight shuffle, random}; after EVERY move Threefold() is compared with min(3, occurrences of the reference identity (placement, side, rights, en-passant capturability) in the history list). UCI leg: the same games through `position fen F moves ...` + `go depth 2` (bestmove 0000 iff third occurrence / no legal move / clock>=100). Two games alive at once (set up through board.StartPos() and FromFEN) advanced alternately must not disturb each other's counts. Separate class: start FENs carrying a raw, uncapturable en-passant target (known finding). Non-trivial = step with true count >= 2, or an earlier position with the same placement but different rights / en-passant capturability; distinct by (start, move prefix)")
		rec.Assume("reference identity of positions from verif/refchess (Key: placement, side, rights, capturable en-passant)")
		rec.Rapid(t, "history", evid.Pick(20000, 2000000), func(t *rapid.T) {
			root, label := gen.Root(t)
			if gen.Chance(t, 1, 3, "startpos") {
				root, label = refchess.MustFEN(gen.StartFEN), "startpos"
			}
			root = root.NormEP()
			if root.Half > 60 {
				root.Half = gen.Draw(t, 0, 20, "half")
			}
			rec.Class("root_" + label)
			c := Case{FEN: root.FEN(), Moves: gen.History(t, root, 200)}
			if rec.WantSample("history") && len(c.Moves) > 8 {
				rec.Sample("history", c)
			}
			err, _ := checkCase(c, rec)
			if err != nil {
				rec.Fail("history", err.Error(), c)
				t.Fatalf("%v", err)
			}
		})
		rec.Rapid(t, "long_history", evid.Pick(1500, 100000), func(t *rapid.T) {
			// games that go on past a halfmove clock of 100 and 127, histories of up to 400 plies
			root, _ := gen.Root(t)
			if gen.Chance(t, 1, 2, "startpos") {
				root = refchess.MustFEN(gen.StartFEN)
			}
			root = root.NormEP()
			root.Half = 0
			c := Case{FEN: root.FEN()}
			pre, mid := gen.LongShuffle(t, root, 60, 200)
			for _, m := range pre {
				c.Moves = append(c.Moves, m.String())
			}
			c.Moves = append(c.Moves, gen.HistoryOpt(t, mid, 200, false)...)
			rec.Class("long_history")
			if len(c.Moves) >= 128 {
				rec.Class("history>=128_plies")
			}
			err, _ := checkCase(c, rec)
			if err != nil {
				rec.Fail("long_history", err.Error(), c)
				t.Fatalf("%v", err)
			}
		})
		rec.Rapid(t, "detour", evid.Pick(400, 30000), func(t *rapid.T) {
			// leave a position, stay away from it for more than 100 / 127 reversible plies, come back: the position
			// has occurred exactly twice, however far back the first occurrence lies
			root, _ := gen.Root(t)
			if gen.Chance(t, 1, 2, "startpos") {
				root = refchess.MustFEN(gen.StartFEN)
			}
			root = root.NormEP()
			root.Half = 0
			moves, ok := detour(t, root)
			if !ok {
				rec.Class("detour_not_available")
				return
			}
			c := Case{FEN: root.FEN(), Moves: moves}
			rec.Class("detour")
			if len(moves) >= 132 {
				rec.Class("detour_of_more_than_127_plies")
			}
			err, _ := checkCase(c, rec)
			if err != nil {
				rec.Fail("detour", err.Error(), c)
				t.Fatalf("%v", err)
			}
		})
		rec.Rapid(t, "two_games", evid.Pick(3000, 300000), func(t *rapid.T) {
			// two games alive at the same time, advanced alternately: their histories must not interfere.
			// Both start from the initial position, set up through board.StartPos() and / or FromFEN.
			c := TwoCase{ViaStartPos: [2]bool{gen.Chance(t, 2, 3, "sp0"), gen.Chance(t, 2, 3, "sp1")}}
			root := refchess.MustFEN(gen.StartFEN)
			c.Moves[0] = gen.History(t, root, 40)
			c.Moves[1] = gen.History(t, root, 40)
			for i := gen.Draw(t, 0, 60, "switches"); i > 0; i-- {
				c.Order = append(c.Order, gen.Draw(t, 0, 1, "who"))
			}
			if err := twoGames(c, rec); err != nil {
				rec.Fail("two_games", err.Error(), c)
				t.Fatalf("%v", err)
			}
		})
		rec.Rapid(t, "raw_ep_start", evid.Pick(6000, 300000), func(t *rapid.T) {
			// start FEN with a raw en-passant target (after a double push), capturable or not
			var root refchess.Pos
			if p, m, _, ok := gen.EPMotif(t); ok && gen.Chance(t, 2, 3, "motif") {
				root = p.Make(m)
				if gen.Chance(t, 1, 2, "mirror") {
					root = gen.MirrorColors(root)
				}
			} else {
				r, _ := gen.Root(t)
				p := r
				// play until a double push happens (bounded), keep the raw target
				gen.Playout(t, r, 30, func(ply int, q *refchess.Pos, legal []refchess.Move, m refchess.Move) bool {
					n := q.Make(m)
					if n.EP >= 0 {
						p = n
						return false
					}
					return true
				})
				root = p
			}
			root.Half = gen.Draw(t, 0, 10, "half")
			if root.EP >= 0 && !root.EPCapturable() {
				rec.Class("start_raw_ep_uncapturable")
			} else if root.EP >= 0 {
				rec.Class("start_ep_capturable")
			}
			c := Case{FEN: root.FEN(), Moves: gen.History(t, root, 40)}
			err, known := checkCase(c, rec)
			if known > 0 {
				rec.KnownHit(knownKey, "start FEN with a raw, uncapturable en-passant target keeps the flag in its hash: its recurrence is counted one short (e.g. "+c.FEN+")")
				if rec.WantSample("known_raw_ep") {
					rec.Sample("known_raw_ep", c)
				}
			}
			if err != nil {
				rec.Fail("raw_ep_start", err.Error(), c)
				t.Fatalf("%v", err)
			}
		})
		rec.Rapid(t, "uci", evid.Pick(5000, 200000), func(t *rapid.T) {
			root, _ := gen.Root(t)
			if gen.Chance(t, 1, 2, "startpos") {
				root = refchess.MustFEN(gen.StartFEN)
			}
			root = root.NormEP()
			if root.Half > 60 {
				root.Half = gen.Draw(t, 0, 20, "half")
			}
			c := Case{FEN: root.FEN(), Moves: gen.History(t, root, 60), UCI: true}
			if gen.Chance(t, 1, 2, "session") && len(c.Moves) > 0 {
				k := 0
				for i := gen.Draw(t, 1, 4, "positionCommands"); i > 0 && k < len(c.Moves); i-- {
					k += gen.Draw(t, 0, len(c.Moves)-k, "more")
					c.Prefixes = append(c.Prefixes, k)
					c.NewGame = append(c.NewGame, gen.Chance(t, 1, 4, "newgame"))
				}
				c.NewGame = append(c.NewGame, gen.Chance(t, 1, 4, "newgameLast"))
			}
			if c.Before = gen.EarlierPositions(t, c.FEN, false, c.Moves); len(c.Before) > 0 {
				rec.Class("uci_earlier_position_commands")
			}
			if rec.WantSample("uci") && len(c.Moves) > 8 {
				rec.Sample("uci", c)
			}
			if err := checkUCI(c, rec); err != nil {
				rec.Fail("uci", err.Error(), c)
				t.Fatalf("%v", err)
			}
		})
	}, func(check string, raw json.RawMessage) error {
		if check == "two_games" {
			var tc TwoCase
			if err := json.Unmarshal(raw, &tc); err != nil {
				return err
			}
			return twoGames(tc, nil)
		}
		var c Case
		if err := json.Unmarshal(raw, &c); err != nil {
			return err
		}
		err, _ := checkCase(c, nil)
		return err
	})
}
