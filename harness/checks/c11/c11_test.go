// C11 - FEN parsing and printing are inverse and robust.
package c11

import (
	"encoding/json"
	"fmt"
	"reflect"
	"strings"
	"testing"

	"github.com/paulsonkoly/chess-3/board"
	"pgregory.net/rapid"

	"verif/eng"
	"verif/evid"
	"verif/gen"
	"verif/refchess"
)

// Case: Kind selects the sub-check.
//
//	position: play Moves from FEN on an engine board, print, parse back, compare everything
//	text:     FEN is canonical text: parse, print, compare text; compare board with the reference reading
//	uci:      `position fen FEN` + `fen` prints FEN; then the rejected command Bad leaves it in place
//	bytes:    arbitrary input Raw (string of bytes) must not crash
type Case struct {
	Kind  string   `json:"kind"`
	FEN   string   `json:"fen,omitempty"`
	Moves []string `json:"moves,omitempty"`
	Bad   string   `json:"bad,omitempty"`
	Prev  string   `json:"prev,omitempty"` // text: parsed into the same Board value before FEN (the tuner reuses one board)
	More  []string `json:"more,omitempty"` // uci: further `position fen` commands of the same session, each followed by `fen`
	Raw   []byte   `json:"raw,omitempty"`
	// Before (uci): conforming position / ucinewgame lines sent on the same driver first (gen.EarlierPositions)
	Before []string `json:"before,omitempty"`
}

func sameBoards(a, b *board.Board) string {
	sa, sb := a.VerifSnapshot(), b.VerifSnapshot()
	sa.Hashes, sb.Hashes = nil, nil // history is not part of a FEN
	if !reflect.DeepEqual(sa, sb) {
		return fmt.Sprintf("boards differ: %+v vs %+v", sa, sb)
	}
	return ""
}

func checkPosition(c Case, rec *evid.Rec) error {
	p, err := refchess.ParseFEN(c.FEN)
	if err != nil {
		return err
	}
	b, err := eng.FromRef(&p)
	if err != nil {
		return fmt.Errorf("engine rejects valid FEN %q: %v", c.FEN, err)
	}
	for i := 0; ; i++ {
		if p.Half <= 100 {
			text := b.FEN()
			back, err := board.FromFEN(text)
			if err != nil {
				return fmt.Errorf("after %v from %s: engine rejects its own FEN %q: %v", c.Moves[:i], c.FEN, text, err)
			}
			if d := sameBoards(b, back); d != "" {
				return fmt.Errorf("after %v from %s: parse(print(b)) != b for %q: %s", c.Moves[:i], c.FEN, text, d)
			}
			if again := back.FEN(); again != text {
				return fmt.Errorf("second print %q differs from first %q", again, text)
			}
			if back.Hash() != back.VerifCalcHash() {
				return fmt.Errorf("FromFEN(%q) carries a hash that is not the hash of the position", text)
			}
			if rec != nil {
				rec.Eval(1)
				if p.EP >= 0 || p.Castle != [4]bool{} {
					rec.NT(evid.HS(text))
				}
			}
		}
		if i >= len(c.Moves) {
			return nil
		}
		m, err := refchess.ParseMove(c.Moves[i])
		if err != nil {
			return err
		}
		b.MakeMove(eng.Enc(m))
		p = p.Make(m)
	}
}

func checkText(c Case, rec *evid.Rec) error {
	p, err := refchess.ParseFEN(c.FEN)
	if err != nil {
		return err
	}
	b, err := board.FromFEN(c.FEN)
	if err != nil {
		return fmt.Errorf("engine rejects canonical FEN %q: %v", c.FEN, err)
	}
	if got := b.FEN(); got != c.FEN {
		return fmt.Errorf("print(parse(s)) = %q for s = %q", got, c.FEN)
	}
	if d := eng.SameAsRef(b, &p); d != "" {
		return fmt.Errorf("parse(%q): %s", c.FEN, d)
	}
	if d := eng.Consistent(b); d != "" {
		return fmt.Errorf("parse(%q): %s", c.FEN, d)
	}
	// the allocation-free entry must read the same position
	var nb board.Board
	if err := board.ParseFEN(&nb, []byte(c.FEN)); err != nil {
		return fmt.Errorf("ParseFEN rejects canonical FEN %q: %v", c.FEN, err)
	}
	if nb.FEN() != c.FEN {
		return fmt.Errorf("ParseFEN then FEN() = %q for %q", nb.FEN(), c.FEN)
	}
	if c.Prev != "" {
		// a Board value that already holds another position (ParseFEN documents that it fills in *b)
		var rb board.Board
		if err := board.ParseFEN(&rb, []byte(c.Prev)); err != nil {
			return fmt.Errorf("ParseFEN rejects canonical FEN %q: %v", c.Prev, err)
		}
		if err := board.ParseFEN(&rb, []byte(c.FEN)); err != nil {
			return fmt.Errorf("ParseFEN rejects canonical FEN %q when the board held %q before: %v", c.FEN, c.Prev, err)
		}
		if rb.FEN() != c.FEN {
			return fmt.Errorf("ParseFEN(%q) into a board that held %q before reads %q", c.FEN, c.Prev, rb.FEN())
		}
		rb.ResetHash()
		nb.ResetHash()
		if d := sameBoards(&rb, &nb); d != "" {
			return fmt.Errorf("ParseFEN(%q) into a board that held %q before differs from a fresh parse: %s", c.FEN, c.Prev, d)
		}
		if rec != nil {
			rec.Class("text_parsed_into_reused_board")
		}
	}
	if rec != nil {
		rec.Eval(1)
		rec.NT(evid.HS(c.FEN))
	}
	return nil
}

// readingOf tells whether fen is a valid position that agrees with every field of the FEN text in cmd.
func readingOf(cmd, fen string) bool {
	txt := strings.TrimSpace(strings.TrimPrefix(cmd, "position fen"))
	if txt == cmd {
		return false
	}
	in, out := strings.Fields(txt), strings.Fields(fen)
	if len(in) == 0 || len(in) > 6 || len(out) != 6 {
		return false
	}
	p, err := refchess.ParseFEN(fen)
	if err != nil || p.Valid() != nil || p.Half > 100 || p.Full < 1 {
		return false
	}
	for i, f := range in {
		if f != out[i] && !(i == 3 && out[i] == "-") { // an en-passant target may be normalised away
			return false
		}
	}
	return true
}

func checkUCI(c Case, rec *evid.Rec) error {
	lines := append(append([]string{}, c.Before...), "position fen "+c.FEN, "fen")
	if c.Bad != "" {
		lines = append(lines, c.Bad, "fen")
	}
	out, errOut := eng.UCI(lines)
	got := eng.FENLines(out)
	if len(got) < 1 || got[0] != c.FEN {
		return fmt.Errorf("`position fen %s` + `fen` printed %q (stderr %q)", c.FEN, got, errOut)
	}
	if c.Bad != "" {
		// Whether a command is rejected is the driver's decision. Seen from outside: the position is unchanged
		// (rejected, or ignored), or the driver accepted the command - then it must have done so without any
		// complaint, and what it installed must be a valid position that agrees with every field the text gives
		// (a more lenient driver may complete missing fields). A position that changes although the driver
		// complains, or changes to something the text does not say, is a rejected position being installed.
		if len(got) != 2 {
			return fmt.Errorf("after the command %q `fen` printed %q, the position was %q (stderr %q)", c.Bad, got[1:], c.FEN, errOut)
		}
		if got[1] != c.FEN {
			silent := errOut == "" && len(strings.Split(strings.TrimSpace(out), "\n")) == len(got)
			if !silent || !readingOf(c.Bad, got[1]) {
				return fmt.Errorf("after the rejected command %q `fen` printed %q, the position was %q (stderr %q)", c.Bad, got[1:], c.FEN, errOut)
			}
			if rec != nil {
				rec.Class("uci_lenient_acceptance")
			}
		}
		if rec != nil {
			rec.Class("uci_rejected_command")
		}
	}
	if len(c.More) > 0 {
		// one driver session, several positions in a row: each must be reported back exactly
		var script []string
		all := append([]string{c.FEN}, c.More...)
		for _, f := range all {
			script = append(script, "position fen "+f, "fen")
		}
		out, errOut := eng.UCI(script)
		got := eng.FENLines(out)
		for i, f := range all {
			if i >= len(got) || got[i] != f {
				g := ""
				if i < len(got) {
					g = got[i]
				}
				return fmt.Errorf("session %q: position command %d (`position fen %s`) then `fen` printed %q (stderr %q)", all, i, f, g, errOut)
			}
		}
		if rec != nil {
			rec.Class("uci_several_positions_in_one_session")
		}
	}
	if rec != nil {
		rec.Eval(1)
		rec.NT(evid.H("uci", c.FEN, c.Bad))
	}
	return nil
}

// robust feeds arbitrary bytes to both parser entries. A panic is caught by the caller.
func robust(raw []byte) error {
	var nb board.Board
	err1 := board.ParseFEN(&nb, raw)
	b, err2 := board.FromFEN(string(raw))
	if (err1 == nil) != (err2 == nil) {
		return fmt.Errorf("ParseFEN and FromFEN disagree on acceptance of %q: %v / %v", raw, err1, err2)
	}
	if err2 != nil {
		if b != nil {
			return fmt.Errorf("FromFEN(%q) returned both a board and an error", raw)
		}
		return nil
	}
	text := b.FEN() // printing whatever was accepted must not crash either
	// when the accepted input describes a valid position the round trip clause applies
	p := eng.ToRef(b)
	if p.Valid() == nil && eng.Consistent(b) == "" {
		back, err := board.FromFEN(text)
		if err != nil {
			return fmt.Errorf("input %q was read as the valid position %q which the reader then rejects: %v", raw, text, err)
		}
		if back.FEN() != text {
			return fmt.Errorf("input %q: print/parse/print unstable: %q then %q", raw, text, back.FEN())
		}
	}
	return nil
}

func checkBytes(c Case, rec *evid.Rec) (err error) {
	defer func() {
		if r := recover(); r != nil {
			err = fmt.Errorf("panic on input %q: %v", c.Raw, r)
		}
	}()
	if rec != nil {
		rec.Eval(1)
	}
	return robust(c.Raw)
}

func checkCase(c Case, rec *evid.Rec) error {
	switch c.Kind {
	case "position":
		return checkPosition(c, rec)
	case "text":
		return checkText(c, rec)
	case "uci":
		return checkUCI(c, rec)
	case "bytes":
		return checkBytes(c, rec)
	}
	return fmt.Errorf("unknown kind %q", c.Kind)
}

// heavy draws a valid position loaded with promoted material (9 queens, 10 rooks ...).
func heavy(t *rapid.T) refchess.Pos {
	for attempt := 0; attempt < 30; attempt++ {
		var p refchess.Pos
		p.EP = -1
		free := rapid.Permutation([]int{0, 1, 2, 3, 4, 5, 6, 7, 8, 9, 10, 11, 12, 13, 14, 15, 16, 17, 18, 19, 20, 21, 22, 23, 24, 25, 26, 27, 28, 29, 30, 31, 32, 33, 34, 35, 36, 37, 38, 39, 40, 41, 42, 43, 44, 45, 46, 47, 48, 49, 50, 51, 52, 53, 54, 55, 56, 57, 58, 59, 60, 61, 62, 63}).Draw(t, "squares")
		ix := 0
		next := func() int { ix++; return free[ix-1] }
		p.Sq[next()] = refchess.King
		p.Sq[next()] = -refchess.King
		for _, s := range []int8{1, -1} {
			kind := int8(gen.Draw(t, refchess.Knight, refchess.Queen, "kind"))
			base := 2
			if kind == refchess.Queen {
				base = 1
			}
			promoted := gen.Draw(t, 4, 8, "promoted")
			for i := 0; i < base+promoted; i++ {
				p.Sq[next()] = s * kind
			}
			for i := 0; i < 8-promoted; i++ { // remaining pawns, if a legal square comes up
				sq := next()
				if sq >= 8 && sq <= 55 {
					p.Sq[sq] = s * refchess.Pawn
				}
			}
		}
		w, b := p.InCheck(true), p.InCheck(false)
		if w && b {
			continue
		}
		p.White = w || (!b && gen.Chance(t, 1, 2, "stm"))
		p.Half, p.Full = gen.Draw(t, 0, 100, "half"), gen.Draw(t, 1, 1000000, "full")
		if p.Valid() == nil {
			return p
		}
	}
	return heavyFallback
}

// heavyFallback is a valid position with ten knights, used when the draws above keep producing check configurations
// that no game can reach.
var heavyFallback = func() refchess.Pos {
	p := refchess.MustFEN("NNNNNNNN/NN6/8/8/8/8/8/K6k w - - 0 1")
	if err := p.Valid(); err != nil {
		panic("harness: invalid fallback position: " + err.Error())
	}
	return p
}()

var hostile = []string{
	"", " ", "/", "8", "8/8/8/8/8/8/8/8", "8/8/8/8/8/8/8/8 ", "8/8/8/8/8/8/8/8 w", "8/8/8/8/8/8/8/8 w ", "8/8/8/8/8/8/8/8 w -", "8/8/8/8/8/8/8/8 w - ",
	"8/8/8/8/8/8/8/8 w - -", "8/8/8/8/8/8/8/8 w - - ", "8/8/8/8/8/8/8/8 w - - 0", "8/8/8/8/8/8/8/8 w - - 0 ", "8/8/8/8/8/8/8/8 w - a", "8/8/8/8/8/8/8/8 w - a ", "8/8/8/8/8/8/8/8 w - a9 0 1",
	"8/8/8/8/8/8/8/8 w - i3 0 1", "8/8/8/8/8/8/8/8 w - - 99999999999999999999999999 1", "8/8/8/8/8/8/8/8 w - - 0 99999999999999999999999999999", "8/8/8/8/8/8/8/8 w - - 0 9223372036854775807",
	"8/8/8/8/8/8/8/8 w - - 0 9223372036854775808", "8/8/8/8/8/8/8/8 w - - 0 18446744073709551616", "8/8/8/8/8/8/8/8/8 w - - 0 1", "8/8/8/8/8/8/8/8/ w - - 0 1", "88888888/8/8/8/8/8/8/8 w - - 0 1",
	"pppppppppppppppppppppppppppppppppppppppppppppppppppppppppppppppppp w - - 0 1", "8/8/8/8/8/8/8/7pp w - - 0 1", "8/8/8/8/8/8/8/8p w - - 0 1", "k7/8/8/8/8/8/8/K7 w KQkqKQkq - 0 1",
	"k7/8/8/8/8/8/8/K7 w - - 0 1 extra fields here", "k7/8/8/8/8/8/8/K7  w  -  -  0  1", "k7/8/8/8/8/8/8/K7\tw - - 0 1", "k7/8/8/8/8/8/8/K7 w - - 0 1\n", "\x00\xff\xfe", "k7/8/8/8/8/8/8/K7 w - -- 0 1",
	"k7/8/8/8/8/8/8/K7 w - - +1 1", "k7/8/8/8/8/8/8/K7 w - - 1e3 1", "k7/8/8/8/8/8/8/K7 w - h", "k7/8/8/8/8/8/8/K7 w - -",
}

// mutate applies a drawn grammar-level mutation to a valid FEN.
func mutate(t *rapid.T, fen string) []byte {
	fs := strings.Fields(fen)
	switch gen.Draw(t, 0, 11, "mutation") {
	case 0: // truncate
		return []byte(fen[:gen.Draw(t, 0, len(fen), "cut")])
	case 1: // drop a field
		i := gen.Draw(t, 0, len(fs)-1, "field")
		return []byte(strings.Join(append(append([]string{}, fs[:i]...), fs[i+1:]...), " "))
	case 2: // duplicate a field
		i := gen.Draw(t, 0, len(fs)-1, "field")
		return []byte(strings.Join(append(append(append([]string{}, fs[:i+1]...), fs[i]), fs[i+1:]...), " "))
	case 3: // overflow a counter
		fs[4+gen.Draw(t, 0, 1, "which")] = strings.Repeat("9", gen.Draw(t, 1, 40, "digits"))
		return []byte(strings.Join(fs, " "))
	case 4: // over-long rank / extra rank
		ranks := strings.Split(fs[0], "/")
		i := gen.Draw(t, 0, 7, "rank")
		ranks[i] += []string{"p", "8", "PPPPPPPPP", "1", "k"}[gen.Draw(t, 0, 4, "tail")]
		if gen.Chance(t, 1, 3, "extraRank") {
			ranks = append(ranks, "8")
		}
		fs[0] = strings.Join(ranks, "/")
		return []byte(strings.Join(fs, " "))
	case 5: // stray character somewhere
		b := []byte(fen)
		b[gen.Draw(t, 0, len(b)-1, "pos")] = byte(gen.Draw(t, 0, 255, "byte"))
		return b
	case 6: // insert a byte
		b := []byte(fen)
		i := gen.Draw(t, 0, len(b), "pos")
		return append(append(append([]byte{}, b[:i]...), byte(gen.Draw(t, 0, 255, "byte"))), b[i:]...)
	case 7: // delete a byte
		b := []byte(fen)
		i := gen.Draw(t, 0, len(b)-1, "pos")
		return append(append([]byte{}, b[:i]...), b[i+1:]...)
	case 8: // en-passant field oddities
		fs[3] = []string{"a", "h", "a0", "a9", "i3", "e", "-e3", "e3e3", "\x00", "E3"}[gen.Draw(t, 0, 9, "ep")]
		return []byte(strings.Join(fs[:gen.Draw(t, 4, 6, "keep")], " "))
	case 9: // separators
		return []byte(strings.Join(fs, []string{"  ", "\t", "", " \t ", "\n"}[gen.Draw(t, 0, 4, "sep")]))
	case 10:
		return []byte(hostile[gen.Draw(t, 0, len(hostile)-1, "hostile")])
	default: // raw bytes
		return rapid.SliceOfN(rapid.Byte(), 0, 100).Draw(t, "raw")
	}
}

func TestC11(t *testing.T) {
	evid.Main(t, "C11", func(rec *evid.Rec) {
		rec.Rule("(position) engine boards along rapid playouts: parse(print(b)) equals b in every field incl. fullmove number, second print equal; (text) reference-printed canonical FENs with raw and normalised en-passant field, clocks 0..100, fullmove up to 10^6, all rights combinations, up to 9 queens / 10 rooks, bishops, knights: print(parse(s)) == s and the parsed board equals the reference reading, for FromFEN and ParseFEN; (uci) `position fen s` + `fen` prints s, and a following rejected command (garbage FEN, too few fields, bad counters, impossible piece counts) leaves the position in place; (bytes) grammar mutations of valid FENs, hostile constants and raw bytes: no panic, both entry points agree on acceptance; accepted inputs that describe a valid position print/parse/print stably. Thorough tier adds native coverage-guided fuzzing of the same target. Non-trivial = FEN with en-passant target or rights (position), every distinct canonical text / session (text, uci); mutations are counted as evaluations only")
		rec.Assume("reference FEN reader/printer in verif/refchess")
		rec.Rapid(t, "position", evid.Pick(20000, 300000), func(t *rapid.T) {
			root, label := gen.Root(t)
			c := Case{Kind: "position", FEN: root.FEN()}
			gen.Playout(t, root, 30, func(ply int, p *refchess.Pos, legal []refchess.Move, m refchess.Move) bool {
				c.Moves = append(c.Moves, m.String())
				return true
			})
			rec.Class("position_" + label)
			if err := checkCase(c, rec); err != nil {
				rec.Fail("position", err.Error(), c)
				t.Fatalf("%v", err)
			}
		})
		rec.Rapid(t, "text", evid.Pick(100000, 1500000), func(t *rapid.T) {
			var p refchess.Pos
			if gen.Chance(t, 1, 4, "heavy") {
				p = heavy(t)
				rec.Class("text_heavy_promoted")
			} else {
				r, _ := gen.Root(t)
				p = gen.Playout(t, r, 10, nil)
				if gen.Chance(t, 1, 2, "norm") {
					p = p.NormEP()
				}
				if gen.Chance(t, 1, 3, "bigFull") {
					p.Full = gen.Draw(t, 1, 1000000, "full")
				}
				if gen.Chance(t, 1, 3, "half") {
					p.Half = gen.Draw(t, 0, 100, "half")
				}
			}
			if p.EP >= 0 {
				rec.Class("text_ep_target")
			}
			c := Case{Kind: "text", FEN: p.FEN()}
			if gen.Chance(t, 1, 2, "reuse") {
				r2, _ := gen.Root(t)
				c.Prev = r2.FEN()
			}
			if rec.WantSample("text") {
				rec.Sample("text", c)
			}
			if err := checkCase(c, rec); err != nil {
				rec.Fail("text", err.Error(), c)
				t.Fatalf("%v", err)
			}
		})
		rec.Rapid(t, "uci", evid.Pick(10000, 100000), func(t *rapid.T) {
			var p refchess.Pos
			if gen.Chance(t, 1, 2, "heavy") {
				p = heavy(t)
				rec.Class("uci_heavy_promoted")
			} else {
				r, _ := gen.Root(t)
				p = gen.Playout(t, r, 10, nil)
			}
			c := Case{Kind: "uci", FEN: p.FEN()}
			if c.Before = gen.EarlierPositions(t, c.FEN, false, nil); len(c.Before) > 0 {
				rec.Class("uci_earlier_position_commands")
			}
			if gen.Chance(t, 1, 2, "session") {
				for k := gen.Draw(t, 1, 3, "more"); k > 0; k-- {
					r2, _ := gen.Root(t)
					q := gen.Playout(t, r2, 6, nil)
					if q.Half <= 100 {
						c.More = append(c.More, q.FEN())
					}
				}
			}
			switch gen.Draw(t, 0, 7, "bad") {
			case 0:
				c.Bad = "position fen " + string(mutateRejectable(t))
			case 1:
				c.Bad = "position fen 8/8/8/8/8/8/8/8 w - -"
			case 2:
				c.Bad = "position fen rnbqkbnr/pppppppp/8/8/8/8/PPPPPPPP/RNBQKBNR w KQkq - 101 1"
			case 3:
				c.Bad = "position fen rnbqkbnr/pppppppp/8/8/8/8/PPPPPPPP/RNBQKBNR w KQkq - 0 0"
			case 4: // impossible piece counts (ten queens and eight pawns, two kings)
				c.Bad = []string{"position fen QQQQQQQQ/QQ5k/PPPPPPPP/8/8/8/8/K7 w - - 0 1", "position fen kk6/8/8/8/8/8/8/K7 w - - 0 1", "position fen 8/8/8/8/8/8/8/K7 w - - 0 1", "position fen k7/pppppppp/p7/8/8/8/8/K7 w - - 0 1"}[gen.Draw(t, 0, 3, "count")]
			case 5:
				c.Bad = "position"
			case 6: // every field count below six (the command documents "not enough arguments")
				fs := strings.Fields(p.FEN())
				c.Bad = strings.TrimSpace("position fen " + strings.Join(fs[:gen.Draw(t, 0, 5, "fields")], " "))
			}
			if rec.WantSample("uci") {
				rec.Sample("uci", c)
			}
			if err := checkCase(c, rec); err != nil {
				rec.Fail("uci", err.Error(), c)
				t.Fatalf("%v", err)
			}
		})
		rec.Rapid(t, "bytes", evid.Pick(300000, 5000000), func(t *rapid.T) {
			r, _ := gen.Root(t)
			c := Case{Kind: "bytes", Raw: mutate(t, r.FEN())}
			if rec.WantSample("bytes") {
				rec.Sample("bytes", map[string]string{"raw": string(c.Raw)})
			}
			if err := checkCase(c, rec); err != nil {
				rec.Fail("bytes", err.Error(), c)
				t.Fatalf("%v", err)
			}
		})
		for _, h := range hostile {
			if err := checkBytes(Case{Kind: "bytes", Raw: []byte(h)}, rec); err != nil {
				rec.Violate("bytes", err.Error(), Case{Kind: "bytes", Raw: []byte(h)})
			}
		}
	}, func(check string, raw json.RawMessage) error {
		var c Case
		if err := json.Unmarshal(raw, &c); err != nil {
			return err
		}
		return checkCase(c, nil)
	})
}

// mutateRejectable draws text that the FEN reader certainly rejects.
func mutateRejectable(t *rapid.T) []byte {
	return []byte([]string{
		"x7/8/8/8/8/8/8/8 w - - 0 1", "8/8/8/8/8/8/8/8/8/8 w - - 0 1", "k7/8/8/8/8/8/8/K7 x - - 0 1", "k7/8/8/8/8/8/8/K7 w X - 0 1",
		"k7/8/8/8/8/8/8/K7 w - z9 0 1", "k7/8/8/8/8/8/8/K7 w - - x 1", "k7/8/8/8/8/8/8/K7 w - - 0 x", "k7/8/8/8/8/8/8/K7 w - - 0 0",
	}[gen.Draw(t, 0, 7, "rej")])
}

// FuzzFromFEN is the native coverage-guided target (thorough tier; quick replays the saved corpus through go test).
func FuzzFromFEN(f *testing.F) {
	for _, h := range hostile {
		f.Add([]byte(h))
	}
	for _, s := range gen.BenchFENs {
		f.Add([]byte(s))
	}
	for _, p := range gen.SuiteRoots() {
		f.Add([]byte(p.FEN()))
	}
	f.Fuzz(func(t *testing.T, raw []byte) {
		if err := robust(raw); err != nil {
			t.Fatal(err)
		}
	})
}
