// C12 - attack tables equal ray-walking geometry for every square and occupancy.
package c12

import (
	"encoding/json"
	"fmt"
	"math/bits"
	"testing"

	"github.com/paulsonkoly/chess-3/attacks"
	"github.com/paulsonkoly/chess-3/chess"

	"verif/evid"
)

// Case names one table lookup.
type Case struct {
	Kind string `json:"kind"` // rook bishop king knight pawncap pawnpush between
	Sq   int    `json:"sq"`
	Sq2  int    `json:"sq2,omitempty"`
	Occ  uint64 `json:"occ,omitempty"`
	Col  int    `json:"col,omitempty"`
}

var rookD = [4][2]int{{1, 0}, {-1, 0}, {0, 1}, {0, -1}}
var bishD = [4][2]int{{1, 1}, {1, -1}, {-1, 1}, {-1, -1}}

func on(f, r int) bool { return f >= 0 && f < 8 && r >= 0 && r < 8 }

// walk: squares reached from sq along dirs up to and including the first occupied square.
func walk(sq int, occ uint64, dirs [4][2]int) uint64 {
	var res uint64
	for _, d := range dirs {
		for f, r := sq%8+d[0], sq/8+d[1]; on(f, r); f, r = f+d[0], r+d[1] {
			res |= 1 << (r*8 + f)
			if occ&(1<<(r*8+f)) != 0 {
				break
			}
		}
	}
	return res
}

// relevant: squares whose occupancy can matter = ray squares excluding the last one of each ray.
func relevant(sq int, dirs [4][2]int) uint64 {
	var res uint64
	for _, d := range dirs {
		for f, r := sq%8+d[0], sq/8+d[1]; on(f+d[0], r+d[1]); f, r = f+d[0], r+d[1] {
			res |= 1 << (r*8 + f)
		}
	}
	return res
}

func leaper(sq int, offs [][2]int) uint64 {
	var res uint64
	for _, d := range offs {
		if on(sq%8+d[0], sq/8+d[1]) {
			res |= 1 << ((sq/8+d[1])*8 + sq%8 + d[0])
		}
	}
	return res
}

var kingOffs = [][2]int{{1, 0}, {1, 1}, {0, 1}, {-1, 1}, {-1, 0}, {-1, -1}, {0, -1}, {1, -1}}
var knightOffs = [][2]int{{1, 2}, {2, 1}, {2, -1}, {1, -2}, {-1, -2}, {-2, -1}, {-2, 1}, {-1, 2}}

func pawnCap(sq, col int) uint64 {
	dr := 1
	if col == 1 {
		dr = -1
	}
	return leaper(sq, [][2]int{{-1, dr}, {1, dr}})
}

func pawnPush(sq, col int) uint64 {
	dr := 1
	if col == 1 {
		dr = -1
	}
	return leaper(sq, [][2]int{{0, dr}})
}

func between(a, b int) uint64 {
	if a == b {
		return 0
	}
	df, dr := b%8-a%8, b/8-a/8
	if !(df == 0 || dr == 0 || df == dr || df == -dr) {
		return 0
	}
	sf, sr := sgn(df), sgn(dr)
	var res uint64
	for f, r := a%8+sf, a/8+sr; f != b%8 || r != b/8; f, r = f+sf, r+sr {
		res |= 1 << (r*8 + f)
	}
	return res
}

func sgn(x int) int {
	switch {
	case x < 0:
		return -1
	case x > 0:
		return 1
	}
	return 0
}

func lookup(c Case) (got, want uint64) {
	sq := chess.Square(c.Sq)
	switch c.Kind {
	case "rook":
		return uint64(attacks.RookMoves(sq, chess.BitBoard(c.Occ))), walk(c.Sq, c.Occ, rookD)
	case "bishop":
		return uint64(attacks.BishopMoves(sq, chess.BitBoard(c.Occ))), walk(c.Sq, c.Occ, bishD)
	case "king":
		return uint64(attacks.KingMoves(sq)), leaper(c.Sq, kingOffs)
	case "knight":
		return uint64(attacks.KnightMoves(sq)), leaper(c.Sq, knightOffs)
	case "pawncap":
		var w uint64
		for s := 0; s < 64; s++ {
			if c.Occ&(1<<s) != 0 {
				w |= pawnCap(s, c.Col)
			}
		}
		return uint64(attacks.PawnCaptureMoves(chess.BitBoard(c.Occ), chess.Color(c.Col))), w
	case "pawnpush":
		var w uint64
		for s := 0; s < 64; s++ {
			if c.Occ&(1<<s) != 0 {
				w |= pawnPush(s, c.Col)
			}
		}
		return uint64(attacks.PawnSinglePushMoves(chess.BitBoard(c.Occ), chess.Color(c.Col))), w
	case "between":
		mask := ^(uint64(1)<<c.Sq | uint64(1)<<c.Sq2)
		return uint64(attacks.InBetween[c.Sq][c.Sq2]) & mask, between(c.Sq, c.Sq2)
	}
	return 0, 1
}

func checkCase(c Case) error {
	got, want := lookup(c)
	if got != want {
		return fmt.Errorf("%+v: table %016x geometry %016x", c, got, want)
	}
	return nil
}

// splitmix64 gives the deterministic fillings of the complement of the relevant set.
func splitmix(x *uint64) uint64 {
	*x += 0x9e3779b97f4a7c15
	z := *x
	z = (z ^ (z >> 30)) * 0xbf58476d1ce4e5b9
	z = (z ^ (z >> 27)) * 0x94d049bb133111eb
	return z ^ (z >> 31)
}

func TestC12(t *testing.T) {
	evid.Main(t, "C12", func(rec *evid.Rec) {
		rec.Rule("exhaustive: 64 squares x every subset s of the harness' own relevant-occupancy set (ray squares minus ray ends; 102400 rook + 5248 bishop subsets) x outside fillings o in {0, everything outside the relevant set, k pseudo-random fillings (k=4 quick, 256 thorough; seeded from VERIF_SEED)}: RookMoves/BishopMoves(sq, s|o) == ray walk on s|o (and the walk on s|o == the walk on s, i.e. outside squares never matter); king/knight 64 squares; pawn capture/push 64 singletons x 2 colours plus random sets (union over singletons); InBetween all 4096 pairs with end squares masked. Non-trivial = occupancy with at least one blocker strictly inside a ray / every leaper and pair case; distinct by (kind, square, occupancy)")
		rec.Assume("geometry oracle: ray walker and offset lists written in the harness (checks/c12), independent of attacks/tables.go")
		shard, n := evid.Shard()
		k := evid.Pick(32, 4096)
		rng := evid.Seed() * 7919
		fail := func(c Case) bool {
			if err := checkCase(c); err != nil {
				rec.Violate("table", err.Error(), c)
				return true
			}
			return false
		}
		for sq := 0; sq < 64; sq++ {
			if sq%n != shard {
				continue
			}
			for _, kind := range []string{"rook", "bishop"} {
				dirs := rookD
				if kind == "bishop" {
					dirs = bishD
				}
				rel := relevant(sq, dirs)
				outside := ^rel &^ (1 << sq)
				for s := uint64(0); ; s = (s - rel) & rel {
					base := walk(sq, s, dirs)
					fills := []uint64{0, outside, outside | 1<<sq, 1 << sq}
					for i := 0; i < k; i++ {
						fills = append(fills, splitmix(&rng)&^rel)
					}
					for _, o := range fills {
						c := Case{Kind: kind, Sq: sq, Occ: s | o}
						got, want := lookup(c)
						rec.Eval(1)
						if want != base {
							rec.Violate("oracle", fmt.Sprintf("harness ray walker depends on squares outside its relevant set: %+v", c), c)
							return
						}
						if got != want {
							fail(c)
							return
						}
					}
					if s != 0 {
						rec.NT(evid.H(kind, sq, s))
					}
					if s == rel {
						break
					}
				}
				rec.Class(kind + "_squares")
				rec.ClassN(kind+"_subsets", 1<<bits.OnesCount64(rel))
			}
			for _, kind := range []string{"king", "knight"} {
				rec.Eval(1)
				rec.NT(evid.H(kind, sq))
				if fail(Case{Kind: kind, Sq: sq}) {
					return
				}
			}
			for col := 0; col < 2; col++ {
				for _, kind := range []string{"pawncap", "pawnpush"} {
					rec.Eval(1)
					rec.NT(evid.H(kind, sq, col))
					if fail(Case{Kind: kind, Occ: 1 << sq, Col: col}) {
						return
					}
					for i := 0; i < 64*k; i++ { // random sets must equal the union over their singletons
						occ := splitmix(&rng) & splitmix(&rng)
						if i%3 == 0 {
							occ = splitmix(&rng)
						}
						rec.Eval(1)
						if fail(Case{Kind: kind, Occ: occ, Col: col}) {
							return
						}
					}
				}
			}
			for b := 0; b < 64; b++ {
				rec.Eval(1)
				rec.NT(evid.H("between", sq, b))
				if fail(Case{Kind: "between", Sq: sq, Sq2: b}) {
					return
				}
			}
			rec.ClassN("between_pairs", 64)
		}
		rec.Sample("rook", Case{Kind: "rook", Sq: 27, Occ: 0x0008000000080000})
		rec.Sample("between", Case{Kind: "between", Sq: 0, Sq2: 63})
		rec.FullyExhaustive()
		rec.Exhaustive("64 squares x all subsets of the relevant occupancy (rook 102400, bishop 5248) x outside fillings; all leaper squares; all pawn singletons x colours; all 4096 square pairs")
	}, func(check string, raw json.RawMessage) error {
		var c Case
		if err := json.Unmarshal(raw, &c); err != nil {
			return err
		}
		return checkCase(c)
	})
}
