// C13 - the UCI driver answers every request exactly once under any command timing.
package c13

import (
	"encoding/json"
	"fmt"
	"io"
	"os"
	"regexp"
	"runtime"
	"strings"
	"sync"
	"sync/atomic"
	"testing"
	"time"

	"github.com/paulsonkoly/chess-3/board"
	"github.com/paulsonkoly/chess-3/chess"
	"github.com/paulsonkoly/chess-3/move"
	"github.com/paulsonkoly/chess-3/search"
	"github.com/paulsonkoly/chess-3/uci"
	"pgregory.net/rapid"

	"verif/evid"
	"verif/gen"
	"verif/srch"
)

// Ev is one step of a schedule.
//
//	send       write the command line Arg to the driver's stdin
//	go         write "go Arg" (a search starts)
//	waitstart  wait until the (mock) search announced that it runs
//	info       tell the mock search to emit one info line
//	finish     tell the mock search to return
//	race       tell the mock search to return and write Arg to stdin at the same moment (N: 0 finish first, 1 send first, 2 two goroutines)
//	waitbest   wait for the bestmove line of the running search
//	sleep      sleep N microseconds
//	yield      runtime.Gosched N times
//	eof        close stdin
type Ev struct {
	K   string `json:"k"`
	Arg string `json:"arg,omitempty"`
	N   int    `json:"n,omitempty"`
}

// Case is a whole session.
type Case struct {
	Mock bool `json:"mock"`
	Evs  []Ev `json:"evs"`
	// schedule perturbation through the uci.VerifSetSched hook: at every named point of the driver's
	// goroutines a yield / short sleep is injected pseudo-randomly from Seed; the point Hot always gets HotUs.
	Sched *Sched `json:"sched,omitempty"`
	// Deaf: bit n%64 set = the n-th mock search of the session never reads its ponderhit channel (a real search
	// polls it between iterations only and may be stopped before it gets there)
	Deaf uint64 `json:"deaf,omitempty"`
}

// Sched describes the perturbation of one session.
type Sched struct {
	Seed  uint64 `json:"seed"`
	Hot   string `json:"hot"`
	HotUs int    `json:"hot_us"`
}

var schedPoints = []string{"out:send", "read:send", "read:sent", "handle:line", "int:start", "int:select", "int:fin", "int:line", "go:search", "go:searched", "go:wait", "go:bestmove"}

func (sc *Sched) install() {
	var n atomic.Uint64
	uci.VerifSetSched(func(point string) {
		k := n.Add(1)
		h := (sc.Seed + k*0x9e3779b97f4a7c15) ^ uint64(len(point))*0xbf58476d1ce4e5b9
		h ^= h >> 29
		h *= 0x94d049bb133111eb
		h ^= h >> 32
		switch {
		case point == sc.Hot:
			if sc.HotUs == 0 {
				runtime.Gosched()
			} else {
				time.Sleep(time.Duration(sc.HotUs) * time.Microsecond)
			}
		case h%6 == 0:
			runtime.Gosched()
		case h%40 == 1:
			time.Sleep(time.Duration(h>>20%150) * time.Microsecond)
		}
	})
}

const ceiling = 20 * time.Second

// ---- controllable search ----

type mock struct {
	mu       sync.Mutex
	n        int
	running  bool
	cmd      chan mcmd
	started  chan int
	ponderOK int
	deaf     uint64
}

// mcmd is a command for search number target (commands may be issued before that search has started).
type mcmd struct {
	target int
	c      string
}

func newMock() *mock { return &mock{cmd: make(chan mcmd, 1024), started: make(chan int, 256)} }

func (m *mock) Clear()       {}
func (m *mock) ResizeTT(int) {}

func (m *mock) Go(b *board.Board, opts ...search.Option) (chess.Score, move.Move, move.Move) {
	o := search.Options{}
	for _, f := range opts {
		f(&o)
	}
	m.mu.Lock()
	m.n++
	n := m.n
	m.running = true
	m.mu.Unlock()
	m.started <- n
	k := 0
	ph := o.PonderHit
	if m.deaf>>(uint(n)%64)&1 == 1 {
		ph = nil
	}
	defer func() {
		m.mu.Lock()
		m.running = false
		m.mu.Unlock()
	}()
	for {
		select {
		case mc := <-m.cmd:
			if mc.target != n {
				continue // addressed to an earlier search that had already ended
			}
			switch mc.c {
			case "info":
				k++
				if o.Output != nil {
					fmt.Fprintf(o.Output, "info string verifmock search %d line %d\n", n, k)
				}
			case "finish":
				return 0, move.From(chess.E2) | move.To(chess.E4), move.From(chess.E7) | move.To(chess.E5)
			}
		case <-o.Stop:
			return 0, move.From(chess.E2) | move.To(chess.E4), move.From(chess.E7) | move.To(chess.E5)
		case _, ok := <-ph:
			if ok {
				m.mu.Lock()
				m.ponderOK++
				m.mu.Unlock()
			}
			ph = nil
		}
	}
}

func (m *mock) tell(target int, c string) {
	select {
	case m.cmd <- mcmd{target, c}:
	default:
	}
}

// ---- transcript ----

type stamped struct {
	line    string
	isready int64 // number of isready commands written to stdin when this line arrived
}

type sink struct {
	mu      sync.Mutex
	buf     []byte
	lines   []stamped
	isready *atomic.Int64
	notify  chan struct{}
}

func (s *sink) Write(p []byte) (int, error) {
	s.mu.Lock()
	s.buf = append(s.buf, p...)
	for {
		i := strings.IndexByte(string(s.buf), '\n')
		if i < 0 {
			break
		}
		s.lines = append(s.lines, stamped{string(s.buf[:i]), s.isready.Load()})
		s.buf = s.buf[i+1:]
	}
	s.mu.Unlock()
	select {
	case s.notify <- struct{}{}:
	default:
	}
	return len(p), nil
}

func (s *sink) count(prefix string) int {
	s.mu.Lock()
	defer s.mu.Unlock()
	n := 0
	for _, l := range s.lines {
		if strings.HasPrefix(l.line, prefix) {
			n++
		}
	}
	return n
}

func (s *sink) waitCount(prefix string, want int, d time.Duration, done <-chan struct{}) bool {
	deadline := time.NewTimer(d)
	defer deadline.Stop()
	for {
		if s.count(prefix) >= want {
			return true
		}
		select {
		case <-s.notify:
		case <-done:
			return s.count(prefix) >= want
		case <-deadline.C:
			return s.count(prefix) >= want
		}
	}
}

// Line grammar, deliberately loose so that a maintainer's new output does not alarm: a line must hold only
// printable characters; bestmove and readyok lines must be exact because they are counted; a pv may only
// hold moves; and no second message may start in the middle of a line (that is what a torn line looks like).
var bestLine = regexp.MustCompile(`^bestmove ([a-h][1-8][a-h][1-8][nbrq]?|0000)( ponder [a-h][1-8][a-h][1-8][nbrq]?)?$`)
var printable = regexp.MustCompile(`^[ -~]*$`)
var embedded = regexp.MustCompile(`.(readyok|bestmove |uciok|info depth|info string|id name|option name)`)
var pvTail = regexp.MustCompile(` pv(( [a-h][1-8][a-h][1-8][nbrq]?)*) ?$`)

func lineOK(l string) bool {
	if !printable.MatchString(l) || embedded.MatchString(l) {
		return false
	}
	switch {
	case l == "readyok" || l == "uciok":
		return true
	case strings.HasPrefix(l, "bestmove"):
		return bestLine.MatchString(l)
	case strings.HasPrefix(l, "info "):
		if i := strings.Index(l, " pv"); i >= 0 && !strings.HasPrefix(l, "info string") {
			return pvTail.MatchString(l)
		}
		return true
	case strings.HasPrefix(l, "id ") || strings.HasPrefix(l, "option "):
		return true
	}
	// anything else (fen / eval / perft output, a diagnostic of the maintainer's choosing): a torn line shows as a
	// second message starting inside a line, which was excluded above
	return true
}

type hangErr struct {
	what string
	dump string
}

func (h *hangErr) Error() string { return h.what }

func uciGoroutines() (n int, allParked bool, dump string) {
	buf := make([]byte, 1<<20)
	buf = buf[:runtime.Stack(buf, true)]
	allParked = true
	for _, g := range strings.Split(string(buf), "\n\n") {
		if !strings.Contains(g, "chess-3/uci.") {
			continue
		}
		n++
		dump += g + "\n\n"
		head := strings.SplitN(g, "\n", 2)[0]
		if !(strings.Contains(head, "chan receive") || strings.Contains(head, "chan send") || strings.Contains(head, "select") ||
			strings.Contains(head, "semacquire") || strings.Contains(head, "sync.WaitGroup.Wait") || strings.Contains(head, "IO wait") || strings.Contains(head, "sync.Cond.Wait")) {
			allParked = false
		}
	}
	return
}

// runCase executes the schedule once and applies the transcript oracle.
func runCase(c Case, rec *evid.Rec) error {
	m := newMock()
	m.deaf = c.Deaf
	var isready atomic.Int64
	out := &sink{isready: &isready, notify: make(chan struct{}, 1)}
	errw := &sink{isready: &isready, notify: make(chan struct{}, 1)}
	pr, pw := io.Pipe()
	opts := []uci.DriverOpt{uci.WithInput(pr), uci.WithOutput(out), uci.WithError(errw)}
	if c.Mock {
		opts = append(opts, uci.WithSearch(m))
	}
	d := uci.NewDriver(opts...)
	if c.Sched != nil {
		c.Sched.install()
		defer uci.VerifSetSched(nil)
	}
	done := make(chan struct{})
	go func() { d.Run(); close(done) }()

	sentGo, sentIsready := 0, 0
	ended := false // quit or eof delivered
	inFlight := false
	during := 0
	send := func(line string) {
		if ended {
			return
		}
		if strings.HasPrefix(line, "isready") {
			isready.Add(1)
			sentIsready++
		}
		if inFlight {
			during++
		}
		io.WriteString(pw, line+"\n")
		if strings.HasPrefix(line, "quit") {
			ended = true
		}
	}
	hang := func(what string) error {
		_, _, dump := uciGoroutines()
		return &hangErr{what: what, dump: dump}
	}
	for _, ev := range c.Evs {
		switch ev.K {
		case "send":
			send(ev.Arg)
		case "go":
			if ended || inFlight {
				continue
			}
			sentGo++
			inFlight = true
			io.WriteString(pw, "go "+ev.Arg+"\n")
		case "waitstart":
			if c.Mock && inFlight {
				timeout := time.After(ceiling)
			wait:
				for {
					select {
					case n := <-m.started:
						if n >= sentGo {
							break wait
						}
					case <-done:
						break wait
					case <-timeout:
						return hang("the search did not start within 20 s after go")
					}
				}
			}
		case "info":
			m.tell(sentGo, "info")
		case "finish":
			m.tell(sentGo, "finish")
		case "race":
			switch ev.N {
			case 0:
				m.tell(sentGo, "finish")
				send(ev.Arg)
			case 1:
				send(ev.Arg)
				m.tell(sentGo, "finish")
			default:
				var wg sync.WaitGroup
				wg.Add(1)
				go func() { defer wg.Done(); m.tell(sentGo, "finish") }()
				send(ev.Arg)
				wg.Wait()
			}
		case "waitbest":
			if inFlight {
				if !out.waitCount("bestmove", sentGo, ceiling, done) {
					select {
					case <-done:
						return fmt.Errorf("the driver terminated without answering go number %d with a bestmove line", sentGo)
					default:
					}
					return hang(fmt.Sprintf("no bestmove for go number %d within 20 s", sentGo))
				}
				inFlight = false
			}
		case "sleep":
			time.Sleep(time.Duration(ev.N) * time.Microsecond)
		case "yield":
			for i := 0; i < ev.N; i++ {
				runtime.Gosched()
			}
		case "eof":
			if !ended {
				pw.Close()
				ended = true
			}
		}
	}
	// wind down: end a search that is still running, then quit
	if inFlight {
		if !ended {
			send("stop")
		}
		if !out.waitCount("bestmove", sentGo, ceiling, done) {
			select {
			case <-done:
				return fmt.Errorf("the driver terminated without answering go number %d with a bestmove line", sentGo)
			default:
			}
			return hang(fmt.Sprintf("no bestmove for go number %d within 20 s after stop", sentGo))
		}
	}
	if !ended {
		send("quit")
	}
	select {
	case <-done:
	case <-time.After(ceiling):
		return hang("Run did not return within 20 s after quit / end of input")
	}
	pw.Close()

	// ---- transcript oracle ----
	out.mu.Lock()
	lines := append([]stamped(nil), out.lines...)
	partial := string(out.buf)
	out.mu.Unlock()
	if partial != "" {
		return fmt.Errorf("output ends with an unterminated line %q", partial)
	}
	best, ready, curSearch := 0, 0, 0
	for i, l := range lines {
		if !lineOK(l.line) {
			return fmt.Errorf("output line %d is torn or malformed: %q", i, l.line)
		}
		switch {
		case l.line == "readyok":
			ready++
			if int64(ready) > l.isready {
				return fmt.Errorf("readyok number %d was printed when only %d isready had been sent", ready, l.isready)
			}
		case strings.HasPrefix(l.line, "bestmove"):
			best++
			curSearch = best
		case strings.HasPrefix(l.line, "info string verifmock search "):
			var n, k int
			fmt.Sscanf(l.line, "info string verifmock search %d line %d", &n, &k)
			if n != curSearch+1 {
				return fmt.Errorf("info line of search %d appears after %d bestmove lines: %q", n, best, l.line)
			}
		case strings.HasPrefix(l.line, "info "):
			// real search: an info line must belong to a search that has not been answered yet
			if best >= sentGo {
				return fmt.Errorf("info line after the last bestmove: %q", l.line)
			}
		}
	}
	if best != sentGo {
		return fmt.Errorf("%d go commands were answered by %d bestmove lines", sentGo, best)
	}
	if ready != sentIsready {
		return fmt.Errorf("%d isready commands were answered by %d readyok lines", sentIsready, ready)
	}
	// all driver goroutines gone
	var n int
	for i := 0; i < 200; i++ {
		if n, _, _ = uciGoroutines(); n == 0 {
			break
		}
		time.Sleep(time.Millisecond)
	}
	if n != 0 {
		_, _, dump := uciGoroutines()
		return fmt.Errorf("%d goroutines with driver frames are still alive after Run returned:\n%s", n, dump)
	}
	if rec != nil {
		rec.Eval(1)
		if during > 0 {
			rec.Class("command_during_search")
			rec.NT(evid.H(c))
		}
		if sentGo > 0 {
			rec.ClassN("searches", sentGo)
		}
		if c.Mock {
			m.mu.Lock()
			if m.ponderOK > 0 {
				rec.ClassN("ponderhit_handed_to_search", m.ponderOK)
			}
			m.mu.Unlock()
		}
	}
	return nil
}

// checkCase applies the hang rule around runCase.
func checkCase(c Case, rec *evid.Rec) error {
	err := runCase(c, rec)
	h, isHang := err.(*hangErr)
	if !isHang {
		return err
	}
	// a 20 s wait expired. If every driver goroutine is parked in a channel operation / wait and still is a
	// second later, nothing can make progress any more although a reply is owed: deadlock (timing dependent
	// deadlocks need not reproduce, so no re-run is required). Otherwise (goroutines still running) it is a
	// violation only if the same schedule hangs twice more (three in a row).
	_, parked, dump1 := uciGoroutines()
	if parked {
		time.Sleep(time.Second)
		_, parked2, dump2 := uciGoroutines()
		strip := regexp.MustCompile(`, \d+ minutes\]|\+0x[0-9a-f]+`)
		if parked2 && strip.ReplaceAllString(dump1, "") == strip.ReplaceAllString(dump2, "") {
			return fmt.Errorf("deadlock: %s; all driver goroutines are parked and stay so:\n%s", h.what, dump2)
		}
	}
	for i := 0; i < 2; i++ {
		e2 := runCase(c, nil)
		if _, again := e2.(*hangErr); !again {
			fmt.Println("INFRA-ERROR hang did not reproduce:", h.what)
			os.Exit(2)
		}
	}
	kind := "unresponsive (driver goroutines still running)"
	if parked {
		kind = "deadlock (all driver goroutines parked)"
	}
	return fmt.Errorf("%s, reproduced three times in a row: %s\n%s", kind, h.what, h.dump)
}

// ---- generators ----

func drawSched(t *rapid.T) *Sched {
	if gen.Chance(t, 1, 4, "noSched") {
		return nil
	}
	sc := &Sched{Seed: uint64(gen.Draw(t, 0, 1<<30, "schedSeed"))}
	if gen.Chance(t, 3, 4, "hot") {
		sc.Hot = schedPoints[gen.Draw(t, 0, len(schedPoints)-1, "hotPoint")]
		sc.HotUs = []int{0, 20, 100, 400, 1500}[gen.Draw(t, 0, 4, "hotUs")]
	}
	return sc
}

func preamble(t *rapid.T) []Ev {
	var evs []Ev
	if gen.Chance(t, 1, 2, "uci") {
		evs = append(evs, Ev{K: "send", Arg: "uci"})
	}
	if gen.Chance(t, 1, 2, "isready") {
		evs = append(evs, Ev{K: "send", Arg: "isready"})
	}
	if gen.Chance(t, 1, 3, "hash") {
		evs = append(evs, Ev{K: "send", Arg: fmt.Sprintf("setoption name Hash value %d", gen.Draw(t, 1, 3, "mb"))})
	}
	if gen.Chance(t, 1, 3, "debug") {
		evs = append(evs, Ev{K: "send", Arg: []string{"debug on", "debug off"}[gen.Draw(t, 0, 1, "dbg")]})
	}
	if gen.Chance(t, 1, 3, "newgame") {
		evs = append(evs, Ev{K: "send", Arg: "ucinewgame"})
	}
	return evs
}

var positions = []string{
	"position startpos", "position startpos moves e2e4 e7e5", "position startpos moves g1f3 g8f6 f3g1 f6g8",
	"position fen r3k2r/p1ppqpb1/bn2pnp1/3PN3/1p2P3/2N2Q1p/PPPBBPPP/R3K2R w KQkq - 0 1",
	"position fen 8/8/8/8/8/5k2/8/5K1q w - - 0 1", "position fen 7k/5Q2/6K1/8/8/8/8/8 b - - 0 1",
	"position fen 8/2p5/3p4/KP5r/1R3p1k/8/4P1P1/8 w - - 0 1 moves b4b1",
}

func pause(t *rapid.T) Ev {
	switch gen.Draw(t, 0, 3, "pause") {
	case 0:
		return Ev{K: "yield", N: gen.Draw(t, 0, 3, "n")}
	case 1:
		return Ev{K: "sleep", N: gen.Draw(t, 0, 300, "us")}
	default:
		return Ev{K: "yield", N: 0}
	}
}

// mockRound: one go and what happens around it, with the phase of every command drawn.
func mockRound(t *rapid.T, ponderOn bool) (evs []Ev, ends bool) {
	evs = append(evs, Ev{K: "send", Arg: positions[gen.Draw(t, 0, len(positions)-1, "pos")]})
	args := []string{"infinite", "depth 5", "nodes 1000", "wtime 60000 btime 60000 winc 100 binc 100", "movetime 100000", "movetime 40", "wtime 45 btime 45"}[gen.Draw(t, 0, 6, "go")]
	pondering := false
	if ponderOn && gen.Chance(t, 1, 2, "ponder") {
		args = "ponder " + args
		pondering = true
	}
	evs = append(evs, Ev{K: "go", Arg: args})
	if gen.Chance(t, 3, 4, "waitstart") { // otherwise the following commands arrive before the search has started
		evs = append(evs, Ev{K: "waitstart"})
	}
	n := gen.Draw(t, 0, 6, "during")
	for i := 0; i < n; i++ {
		switch gen.Draw(t, 0, 5, "what") {
		case 0, 1:
			evs = append(evs, Ev{K: "info"})
		case 2:
			evs = append(evs, Ev{K: "send", Arg: "isready"})
		case 3:
			if gen.Chance(t, 1, 3, "debugCmd") { // the protocol allows debug at any time, also while the engine is thinking
				evs = append(evs, Ev{K: "send", Arg: []string{"debug on", "debug off"}[gen.Draw(t, 0, 1, "dbg")]})
			} else {
				evs = append(evs, Ev{K: "send", Arg: "isready"})
			}
		case 4:
			if pondering {
				evs = append(evs, Ev{K: "send", Arg: "ponderhit"})
				pondering = false
			} else {
				evs = append(evs, Ev{K: "info"})
			}
		default:
			evs = append(evs, pause(t))
		}
	}
	// how the search ends
	switch gen.Draw(t, 0, 9, "end") {
	case 0, 1:
		evs = append(evs, Ev{K: "finish"})
	case 2, 3:
		evs = append(evs, Ev{K: "send", Arg: "stop"})
	case 4: // finish coincident with a command
		evs = append(evs, Ev{K: "race", Arg: []string{"isready", "stop", "isready", "quit"}[gen.Draw(t, 0, 3, "rc")], N: gen.Draw(t, 0, 2, "order")})
	case 5:
		evs = append(evs, Ev{K: "race", Arg: "isready", N: gen.Draw(t, 0, 2, "order")})
	case 6:
		evs = append(evs, Ev{K: "send", Arg: "quit"})
		ends = true
	case 7:
		evs = append(evs, Ev{K: "eof"})
		ends = true
	case 8: // finish, then a command in the window between Go returning and bestmove being read
		evs = append(evs, Ev{K: "finish"}, Ev{K: "send", Arg: []string{"isready", "stop"}[gen.Draw(t, 0, 1, "late")]})
	default: // let a timer end it if there is one, else stop
		if strings.Contains(args, "movetime 40") || strings.Contains(args, "wtime 45") {
			if !strings.HasPrefix(args, "ponder") {
				evs = append(evs, Ev{K: "sleep", N: 100})
			} else {
				evs = append(evs, Ev{K: "send", Arg: "stop"})
			}
		} else {
			evs = append(evs, Ev{K: "send", Arg: "stop"})
		}
	}
	told := false // has the GUI told the engine to come to an end?
	for _, e := range evs {
		if e.K == "race" && e.Arg == "quit" {
			ends = true
		}
		if e.K == "eof" || ((e.K == "send" || e.K == "race") && (e.Arg == "stop" || e.Arg == "quit")) {
			told = true
		}
	}
	// `go infinite`, and `go ponder` before its ponderhit, may by the protocol keep their bestmove back until
	// the GUI says stop: a conforming script does not wait for a bestmove it has not asked for
	if (strings.Contains(args, "infinite") || pondering) && !told {
		evs = append(evs, Ev{K: "send", Arg: "stop"})
	}
	evs = append(evs, Ev{K: "waitbest"})
	if !ends && gen.Chance(t, 1, 3, "after") {
		evs = append(evs, Ev{K: "send", Arg: []string{"isready", "stop", "fen"}[gen.Draw(t, 0, 2, "afterCmd")]})
	}
	return
}

func realRound(t *rapid.T, ponderOn bool) (evs []Ev, ends bool) {
	evs = append(evs, Ev{K: "send", Arg: positions[gen.Draw(t, 0, len(positions)-1, "pos")]})
	if ponderOn && gen.Chance(t, 1, 2, "ponder") {
		// a ponder search ignores its limits until ponderhit; it ends on stop (or on its limits after ponderhit)
		args := []string{"ponder nodes 1000", "ponder nodes 1", "ponder depth 2", "ponder wtime 50 btime 50", "ponder nodes 5000 depth 4", "ponder movetime 10"}[gen.Draw(t, 0, 5, "pgo")]
		evs = append(evs, Ev{K: "go", Arg: args}, Ev{K: "sleep", N: gen.Draw(t, 0, 3000, "us")})
		if gen.Chance(t, 1, 3, "isready") {
			evs = append(evs, Ev{K: "send", Arg: "isready"})
		}
		switch gen.Draw(t, 0, 3, "pend") {
		case 0:
			evs = append(evs, Ev{K: "send", Arg: "ponderhit"}, Ev{K: "sleep", N: gen.Draw(t, 0, 2000, "us2")}, Ev{K: "send", Arg: "stop"})
		case 1:
			evs = append(evs, Ev{K: "send", Arg: "ponderhit"})
			if strings.Contains(args, "depth 2") {
				evs = append(evs, Ev{K: "sleep", N: 2000}, Ev{K: "send", Arg: "stop"})
			}
		default:
			evs = append(evs, Ev{K: "send", Arg: "stop"})
		}
		evs = append(evs, Ev{K: "waitbest"})
		return
	}
	args := []string{"depth 4", "nodes 3000", "depth 6 nodes 20000", "movetime 5", "wtime 40 btime 40", "nodes 1", "depth 1", "infinite", "depth 8"}[gen.Draw(t, 0, 8, "go")]
	evs = append(evs, Ev{K: "go", Arg: args})
	n := gen.Draw(t, 0, 4, "during")
	for i := 0; i < n; i++ {
		switch gen.Draw(t, 0, 3, "what") {
		case 0:
			evs = append(evs, Ev{K: "send", Arg: "isready"})
		case 3:
			evs = append(evs, Ev{K: "send", Arg: []string{"debug on", "debug off"}[gen.Draw(t, 0, 1, "dbg")]})
		default:
			evs = append(evs, Ev{K: "sleep", N: gen.Draw(t, 0, 2000, "us")})
		}
	}
	switch gen.Draw(t, 0, 5, "end") {
	case 0, 1:
		evs = append(evs, Ev{K: "send", Arg: "stop"})
	case 2:
		evs = append(evs, Ev{K: "send", Arg: "quit"})
		ends = true
	case 3:
		evs = append(evs, Ev{K: "eof"})
		ends = true
	default:
		if args == "infinite" || args == "depth 8" {
			evs = append(evs, Ev{K: "sleep", N: 3000}, Ev{K: "send", Arg: "stop"})
		}
	}
	evs = append(evs, Ev{K: "waitbest"})
	return
}

// sweep enumerates short mock schedules systematically: command x phase.
func sweep(rec *evid.Rec) bool {
	shard, n := evid.Shard()
	ix := 0
	for _, cmd := range []string{"isready", "stop", "quit", "eof", "ponderhit"} {
		for phase := 0; phase < 7; phase++ {
			for rep := 0; rep < evid.Pick(20, 100); rep++ {
				ix++
				if ix%n != shard {
					continue
				}
				goArgs := "depth 30" // (not `infinite`: its bestmove may be held back until stop, and the search here ends by itself)
				evs := []Ev{{K: "send", Arg: "isready"}}
				if cmd == "ponderhit" {
					evs = append(evs, Ev{K: "send", Arg: "setoption name Ponder value true"})
					goArgs = "ponder wtime 60000 btime 60000"
				}
				evs = append(evs, Ev{K: "send", Arg: "position startpos"}, Ev{K: "go", Arg: goArgs})
				c := Ev{K: "send", Arg: cmd}
				if cmd == "eof" {
					c = Ev{K: "eof"}
				}
				switch phase {
				case 0: // before the search has started
					evs = append(evs, c, Ev{K: "waitstart"}, Ev{K: "finish"})
				case 1: // right after the start
					evs = append(evs, Ev{K: "waitstart"}, c, Ev{K: "finish"})
				case 2: // after two info lines
					evs = append(evs, Ev{K: "waitstart"}, Ev{K: "info"}, Ev{K: "info"}, c, Ev{K: "info"}, Ev{K: "finish"})
				case 3, 4, 5: // coincident with the finish signal, three orders
					if cmd == "eof" {
						evs = append(evs, Ev{K: "waitstart"}, Ev{K: "finish"}, c)
					} else {
						evs = append(evs, Ev{K: "waitstart"}, Ev{K: "race", Arg: cmd, N: phase - 3})
					}
				default: // after bestmove (a ponder search may keep its bestmove back until the ponderhit: not awaited before)
					if cmd == "ponderhit" {
						evs = append(evs, Ev{K: "waitstart"}, Ev{K: "finish"}, Ev{K: "sleep", N: 2000}, c)
					} else {
						evs = append(evs, Ev{K: "waitstart"}, Ev{K: "finish"}, Ev{K: "waitbest"}, c)
					}
				}
				evs = append(evs, Ev{K: "waitbest"})
				if cmd != "quit" && cmd != "eof" {
					evs = append(evs, Ev{K: "send", Arg: "isready"})
				}
				cs := Case{Mock: true, Evs: evs}
				if rep > 0 { // repetition 0 runs unperturbed, the others with a hot point that cycles through all points
					cs.Sched = &Sched{Seed: uint64(ix) * 7919, Hot: schedPoints[rep%len(schedPoints)], HotUs: []int{0, 50, 300, 1000}[rep/len(schedPoints)%4]}
				}
				if cs.Sched != nil {
					rec.Class("sessions_with_perturbed_schedule")
				}
				if err := checkCase(cs, rec); err != nil {
					rec.Violate("sweep", err.Error(), cs)
					return false
				}
				rec.Class(fmt.Sprintf("sweep_%s_phase%d", cmd, phase))
			}
		}
	}
	return true
}

func TestC13(t *testing.T) {
	_ = srch.MaskTime
	evid.Main(t, "C13", func(rec *evid.Rec) {
		rec.Rule("in-process uci.Driver on pipes, race detector on. Controllable mock search (announces start, emits info lines and finishes on command, on stop, or never; takes its ponderhit at once or, per search by a drawn mask, never reads it): systematic sweep command {isready, stop, quit, end of input, ponderhit} x phase {before the search started, right after start, after two info lines, coincident with the finish signal in three orders, after bestmove}, repeated; rapid grammar-generated conforming sessions (uci/isready/setoption/debug/ucinewgame preamble, 1..5 rounds of position + go {infinite, depth, nodes, clocks, movetime, tiny clocks, ponder} with drawn commands at drawn phases, ending by finish / stop / coincident command / quit / end of input / hard timer). Real search with small limits and drawn microsecond delays before isready/stop/quit. Transcript oracle: every line matches the line grammar (no torn lines); one bestmove per go, after all info lines of that search and none of a later search before it; readyok k never before isready k, totals equal; Run returns after quit / end of input; afterwards no goroutine has a driver frame; no panic; race detector silent. Waits have a 20 s ceiling: an expiry with every driver goroutine parked (and still parked a second later) is a deadlock; an expiry with running goroutines is a violation if the same schedule expires three times in a row, otherwise inconclusive (exit 2). Non-trivial = a command delivered while a search was in flight or coincident with its end; distinct by schedule")
		rec.Assume("the Go scheduler is not fully under harness control: interleavings inside the driver are sampled - repetition, GOMAXPROCS variation across shards, the race detector, and yields / sleeps injected at 12 named points of the driver's goroutines through the uci.VerifSetSched hook (a drawn 'hot' point is delayed every time it is reached) - not enumerated")
		rec.Note("GOMAXPROCS=%d", runtime.GOMAXPROCS(0))
		if !sweep(rec) {
			return
		}
		rec.Rapid(t, "mock_session", evid.Pick(12000, 200000), func(t *rapid.T) {
			c := Case{Mock: true, Evs: preamble(t)}
			ponderOn := gen.Chance(t, 1, 3, "ponderOpt")
			if ponderOn {
				c.Evs = append(c.Evs, Ev{K: "send", Arg: "setoption name Ponder value true"})
			}
			rounds := gen.Draw(t, 1, 5, "rounds")
			for i := 0; i < rounds; i++ {
				evs, ends := mockRound(t, ponderOn)
				c.Evs = append(c.Evs, evs...)
				if ends {
					break
				}
			}
			if ponderOn {
				if c.Deaf = rapid.Uint64().Draw(t, "deaf"); c.Deaf != 0 {
					rec.Class("mock_searches_that_ignore_ponderhit")
				}
			}
			c.Sched = drawSched(t)
			rec.Current("mock_session", c)
			if rec.WantSample("mock_session") {
				rec.Sample("mock_session", c)
			}
			if err := checkCase(c, rec); err != nil {
				rec.Fail("mock_session", err.Error(), c)
				t.Fatalf("%v", err)
			}
		})
		rec.Rapid(t, "real_session", evid.Pick(2000, 30000), func(t *rapid.T) {
			c := Case{Evs: preamble(t)}
			ponderOn := gen.Chance(t, 1, 2, "ponderOpt")
			if ponderOn {
				c.Evs = append(c.Evs, Ev{K: "send", Arg: "setoption name Ponder value true"})
			}
			rounds := gen.Draw(t, 1, 3, "rounds")
			for i := 0; i < rounds; i++ {
				evs, ends := realRound(t, ponderOn)
				c.Evs = append(c.Evs, evs...)
				if ends {
					break
				}
			}
			c.Sched = drawSched(t)
			rec.Current("real_session", c)
			if rec.WantSample("real_session") {
				rec.Sample("real_session", c)
			}
			if err := checkCase(c, rec); err != nil {
				rec.Fail("real_session", err.Error(), c)
				t.Fatalf("%v", err)
			}
		})
	}, func(check string, raw json.RawMessage) error {
		var c Case
		if err := json.Unmarshal(raw, &c); err != nil {
			return err
		}
		// timing dependent: repeat
		for i := 0; i < 200; i++ {
			if err := checkCase(c, nil); err != nil {
				return err
			}
		}
		return nil
	})
}
