// C14 - the time budget granted to a search never exceeds the clock.
package c14

import (
	"encoding/json"
	"fmt"
	"os"
	"strings"
	"sync"
	"testing"
	"time"

	"github.com/paulsonkoly/chess-3/board"
	"github.com/paulsonkoly/chess-3/chess"
	"github.com/paulsonkoly/chess-3/move"
	"github.com/paulsonkoly/chess-3/search"
	"github.com/paulsonkoly/chess-3/uci"
	"pgregory.net/rapid"

	"verif/eng"
	"verif/evid"
	"verif/gen"
)

// Case is one clock state. Stm: 0 white to move, 1 black.
type Case struct {
	Remaining int64 `json:"remaining"`
	Inc       int64 `json:"inc"`
	OppTime   int64 `json:"opp_time"`
	OppInc    int64 `json:"opp_inc"`
	MoveTime  int64 `json:"movetime"`
	Stm       int   `json:"stm"`
	Driver    bool  `json:"driver,omitempty"`
	Block     bool  `json:"block,omitempty"`
	Ponder    bool  `json:"ponder,omitempty"`     // go ponder ... then ponderhit: the deadline armed at ponderhit is judged
	PonderOpt bool  `json:"ponder_opt,omitempty"` // the Ponder option is switched on, but the go command is an ordinary timed one
	Plies     int   `json:"plies,omitempty"`      // the blocking search sits this many plies below the root on the driver's board (as a real search does) while it waits
	// Prev: arguments of earlier `go` commands of the same driver session (each answered at once by the mock and
	// awaited before the next command). The limits of the judged `go` depend on its own clock state only.
	Prev []string `json:"prev,omitempty"`
}

func limits(c Case) (bool, int64, int64) {
	if c.Stm == 0 {
		return uci.VerifTimeLimits(c.Remaining, c.OppTime, c.Inc, c.OppInc, c.MoveTime, chess.White)
	}
	return uci.VerifTimeLimits(c.OppTime, c.Remaining, c.OppInc, c.Inc, c.MoveTime, chess.Black)
}

func checkCase(c Case, rec *evid.Rec) error {
	if c.Driver {
		return driverCase(c, rec)
	}
	margin := int64(uci.TimeSafetyMargin)
	timed, soft, hard := limits(c)
	if rec != nil {
		rec.Eval(1)
	}
	if !timed {
		return fmt.Errorf("clock state %+v is not treated as timed", c)
	}
	if c.MoveTime > 0 {
		if soft != c.MoveTime || hard != c.MoveTime {
			return fmt.Errorf("%+v: with a fixed move time soft=%d hard=%d, both must equal %d", c, soft, hard, c.MoveTime)
		}
	} else {
		if hard <= 0 {
			return fmt.Errorf("%+v: hard deadline %d is not positive", c, hard)
		}
		if hard > c.Remaining {
			return fmt.Errorf("%+v: hard deadline %d exceeds the remaining time %d", c, hard, c.Remaining)
		}
		if c.Remaining > margin && hard > c.Remaining-margin {
			return fmt.Errorf("%+v: hard deadline %d does not keep the safety margin %d of the remaining time %d", c, hard, margin, c.Remaining)
		}
	}
	// the deadline depends only on the mover's own clock
	for _, alt := range [][2]int64{{0, 0}, {1, 0}, {c.Remaining, c.Inc}, {1_000_000_000, 1_000_000}, {c.OppTime + 1, c.OppInc + 1}, {17, 100000}} {
		d := c
		d.OppTime, d.OppInc = alt[0], alt[1]
		t2, s2, h2 := limits(d)
		// (the soft target is free to look at the opponent's clock: the property speaks of the deadline; with a
		// fixed move time the soft target is pinned to it by the clause above, whatever the opponent's clock)
		if t2 != timed || h2 != hard || (c.MoveTime > 0 && s2 != soft) {
			return fmt.Errorf("%+v: limits change from (soft %d, hard %d) to (soft %d, hard %d) when only the opponent's clock changes to time=%d inc=%d", c, soft, hard, s2, h2, alt[0], alt[1])
		}
	}
	if rec != nil {
		clamp := c.MoveTime > 0 || hard == c.Remaining || hard == c.Remaining-margin || hard == margin
		if clamp {
			rec.Class("clamp_active_or_movetime")
			rec.NT(evid.H(c.Remaining, c.Inc, c.MoveTime, c.Stm))
		}
		if c.Remaining <= margin {
			rec.Class("remaining<=margin")
		}
	}
	return nil
}

// mock search: records the options it was given; optionally blocks until stopped.
type mock struct {
	mu      sync.Mutex
	soft    int64
	got     bool
	block   bool
	start   time.Time
	stopd   time.Duration
	started chan struct{}
	stopAt  time.Time
	plies   int
}

func (m *mock) Clear()       {}
func (m *mock) ResizeTT(int) {}
func (m *mock) Go(b *board.Board, opts ...search.Option) (chess.Score, move.Move, move.Move) {
	o := search.Options{}
	for _, f := range opts {
		f(&o)
	}
	m.mu.Lock()
	m.soft, m.got = o.SoftTime, true
	m.start = time.Now()
	block := m.block
	m.mu.Unlock()
	// a real search works on the board it is given: it sits some plies below the root most of the time
	type made struct {
		m move.Move
		r board.Reverse
	}
	var path []made
	ms := move.NewStore()
	for i := 0; i < m.plies; i++ {
		pl := eng.Playable(ms, b)
		if len(pl) == 0 {
			break
		}
		path = append(path, made{pl[0], b.MakeMove(pl[0])})
	}
	if m.started != nil {
		close(m.started)
	}
	if block && o.Stop != nil {
		<-o.Stop
		m.mu.Lock()
		m.stopd = time.Since(m.start)
		m.stopAt = time.Now()
		m.mu.Unlock()
	}
	for i := len(path) - 1; i >= 0; i-- {
		b.UndoMove(path[i].m, path[i].r)
	}
	return 0, move.From(chess.E2) | move.To(chess.E4), 0
}

// ponderCase: `go ponder <clock>` on a blocking search, then `ponderhit`; the stop channel must close no later
// than the remaining time after the ponderhit (the deadline armed at ponderhit is the hard limit).
func ponderCase(c Case, rec *evid.Rec) error {
	_, _, hard := limits(c)
	m := &mock{block: true, started: make(chan struct{}), plies: c.Plies}
	ses := eng.NewSession(uci.WithSearch(m))
	ses.Send("setoption name Ponder value true")
	if c.Stm == 1 {
		ses.Send("position startpos moves e2e4")
	}
	w, b, wi, bi := c.Remaining, c.OppTime, c.Inc, c.OppInc
	if c.Stm == 1 {
		w, b, wi, bi = c.OppTime, c.Remaining, c.OppInc, c.Inc
	}
	ses.Send(fmt.Sprintf("go ponder wtime %d btime %d winc %d binc %d", w, b, wi, bi))
	select {
	case <-m.started:
	case <-time.After(20 * time.Second):
		fmt.Println("INFRA-ERROR mock search did not start")
		os.Exit(2)
	}
	hit := time.Now()
	ses.Send("ponderhit")
	slack := 1500 * time.Millisecond
	limit := time.Duration(c.Remaining)*time.Millisecond + slack
	_, ok := ses.Wait("bestmove", limit)
	late := !ok
	if !ok {
		ses.Send("stop")
		ses.Wait("bestmove", 30*time.Second)
	}
	if !ses.Quit(30 * time.Second) {
		fmt.Println("INFRA-ERROR driver did not quit")
		os.Exit(2)
	}
	m.mu.Lock()
	defer m.mu.Unlock()
	if rec != nil {
		rec.Eval(1)
		rec.Class("ponderhit_deadline")
		rec.NT(evid.H("ponder", c))
		rec.Note("ponder: remaining %d ms, hard limit %d ms, stop closed %v after ponderhit", c.Remaining, hard, m.stopAt.Sub(hit).Round(time.Millisecond))
	}
	if late {
		return fmt.Errorf("%+v: after ponderhit the search was not stopped within the remaining time %d ms (+%v slack); the hard limit is %d ms", c, c.Remaining, slack, hard)
	}
	return nil
}

func driverCase(c Case, rec *evid.Rec) error {
	if c.Ponder {
		return ponderCase(c, rec)
	}
	_, soft, hard := limits(c)
	m := &mock{}
	ses := eng.NewSession(uci.WithSearch(m))
	if c.PonderOpt || strings.Contains(strings.Join(c.Prev, " "), "ponder") {
		ses.Send("setoption name Ponder value true")
	}
	if c.Stm == 1 {
		ses.Send("position startpos moves e2e4")
	}
	for _, prev := range c.Prev {
		// "ponder ...|stop" / "ponder ...|hit": a ponder search of the earlier game, ended the way a GUI ends it
		args, end, isPonder := strings.Cut(prev, "|")
		ses.Send("go " + args)
		if isPonder {
			ses.Send(map[string]string{"stop": "stop", "hit": "ponderhit"}[end])
		}
		if _, ok := ses.Wait("bestmove", 30*time.Second); !ok {
			fmt.Println("INFRA-ERROR the non-blocking mock search of an earlier go was not answered")
			os.Exit(2)
		}
	}
	m.mu.Lock()
	m.block, m.got = c.Block, false
	m.mu.Unlock()
	var args []string
	w, b, wi, bi := c.Remaining, c.OppTime, c.Inc, c.OppInc
	if c.Stm == 1 {
		w, b, wi, bi = c.OppTime, c.Remaining, c.OppInc, c.Inc
	}
	if c.MoveTime > 0 {
		args = append(args, fmt.Sprintf("movetime %d", c.MoveTime))
	}
	args = append(args, fmt.Sprintf("wtime %d btime %d winc %d binc %d", w, b, wi, bi))
	ses.Send("go " + strings.Join(args, " "))
	limit := 10 * time.Second
	if c.Block && c.MoveTime == 0 {
		// the hard deadline is never later than the remaining time; 2 s of slack for timers on a loaded machine
		limit = min(limit, time.Duration(c.Remaining)*time.Millisecond+2*time.Second)
	}
	_, ok := ses.Wait("bestmove", limit)
	if !ok && c.Block {
		ses.Send("stop")
		ses.Wait("bestmove", 30*time.Second)
	}
	if !ses.Quit(30 * time.Second) {
		fmt.Println("INFRA-ERROR driver did not quit")
		os.Exit(2)
	}
	m.mu.Lock()
	defer m.mu.Unlock()
	if rec != nil {
		rec.Eval(1)
		rec.Class("driver_leg")
		rec.NT(evid.H("driver", c))
	}
	if !m.got {
		return fmt.Errorf("%+v: the search was never started", c)
	}
	// the one thing the property says about the soft target: with a fixed move time it is that move time
	if c.MoveTime > 0 && m.soft != c.MoveTime {
		return fmt.Errorf("%+v: with a fixed move time the driver passed soft time %d to the search (the time control computes %d)", c, m.soft, soft)
	}
	if c.Block {
		if rec != nil {
			rec.Note("blocking search with hard limit %d ms was stopped after %v", hard, m.stopd.Round(time.Millisecond))
		}
		if !ok {
			return fmt.Errorf("%+v: hard deadline %d ms did not fire within %v", c, hard, limit)
		}
	}
	return nil
}

// drawPrev draws the arguments of an earlier, conforming `go` command of the same session.
func drawPrev(t *rapid.T) string {
	switch gen.Draw(t, 0, 6, "prevkind") {
	case 5, 6:
		return fmt.Sprintf("ponder wtime %d btime %d winc %d binc %d|%s", rapid.Int64Range(1, 10_000_000).Draw(t, "pw"), rapid.Int64Range(1, 10_000_000).Draw(t, "pb"), rapid.Int64Range(0, 100000).Draw(t, "pwi"), rapid.Int64Range(0, 100000).Draw(t, "pbi"), []string{"stop", "hit"}[gen.Draw(t, 0, 1, "pend")])
	case 0:
		return fmt.Sprintf("movetime %d", rapid.Int64Range(1, 10_000_000).Draw(t, "pmt"))
	case 1:
		return fmt.Sprintf("wtime %d btime %d winc %d binc %d", rapid.Int64Range(1, 10_000_000).Draw(t, "pw"), rapid.Int64Range(1, 10_000_000).Draw(t, "pb"), rapid.Int64Range(0, 100000).Draw(t, "pwi"), rapid.Int64Range(0, 100000).Draw(t, "pbi"))
	case 2:
		return fmt.Sprintf("wtime %d btime %d movestogo %d", rapid.Int64Range(1, 10_000_000).Draw(t, "pw"), rapid.Int64Range(1, 10_000_000).Draw(t, "pb"), rapid.Int64Range(1, 60).Draw(t, "pmtg"))
	case 3:
		return fmt.Sprintf("depth %d", rapid.IntRange(1, 20).Draw(t, "pd"))
	default:
		return fmt.Sprintf("nodes %d", rapid.IntRange(1, 100000).Draw(t, "pn"))
	}
}

func TestC14(t *testing.T) {
	evid.Main(t, "C14", func(rec *evid.Rec) {
		margin := int64(uci.TimeSafetyMargin)
		rec.Rule("exhaustive grid: remaining time 1..400 ms step 1, +-3 around the break points (margin, 2*margin, 4*margin, the points where 4*soft crosses remaining-margin for each increment), decades up to 10^12 (+-1); increments {0..100, decades to 10^9, remaining/8 +-1, remaining/2}; both colours; move time absent / {1, margin-1, margin, margin+1, 1000, 10^7}; opponent clock varied. Random elsewhere (rapid). Oracle = only what the property promises: hard > 0; hard <= remaining; remaining > margin => hard <= remaining - margin (margin read from uci.TimeSafetyMargin); with a move time soft == hard == movetime; changing only the opponent's time/increment does not change the hard deadline (nor the soft target under a move time). Driver leg: with a recording mock search and a fixed move time the SoftTime option passed equals the move time; with a blocking mock and a 40..120 ms clock the stop channel closes within the remaining time + 2 s slack (three attempts); half of the driver sessions (recording and blocking) have answered 1-3 earlier conforming go commands (move time, clocks with increment or movestogo, depth, nodes, ponder searches ended by stop or ponderhit) on the same driver first, and the judged go must be unaffected by them; `go ponder` + `ponderhit` on a blocking mock that sits 0..2 plies below the root on the driver's board, with an increment far above the remaining time and a much larger opponent clock: the stop channel closes within the remaining time + 1.5 s slack (three attempts). Non-trivial = grid point where a clamp is active or a move time is set; distinct by (remaining, inc, movetime, colour)")
		rec.Assume("hook uci.VerifTimeLimits (build tag verif) forwards to the unexported time control helpers")
		shard, n := evid.Shard()
		var rems []int64
		for r := int64(1); r <= 400; r++ {
			rems = append(rems, r)
		}
		for _, bp := range []int64{margin, 2 * margin, 4 * margin, 30 * margin, 120 * margin} {
			for d := int64(-3); d <= 3; d++ {
				if bp+d > 400 {
					rems = append(rems, bp+d)
				}
			}
		}
		for d := int64(1000); d <= 1_000_000_000_000; d *= 10 {
			rems = append(rems, d-1, d, d+1)
		}
		var incs []int64
		for i := int64(0); i <= 100; i++ {
			incs = append(incs, i)
		}
		for d := int64(1000); d <= 1_000_000_000; d *= 10 {
			incs = append(incs, d)
		}
		for ri, rem := range rems {
			if ri%n != shard {
				continue
			}
			all := append([]int64{rem / 8, rem/8 + 1, max(rem/8-1, 0), rem / 2, rem, 2 * rem}, incs...)
			// increments at which 4*soft crosses remaining-margin: 4*(rem/30 + inc/2) = rem - margin
			if x := (rem - margin - 4*(rem/30)) / 2; x > 0 {
				all = append(all, x-1, x, x+1)
			}
			for _, inc := range all {
				for stm := 0; stm < 2; stm++ {
					for _, mt := range []int64{0, 1, margin - 1, margin, margin + 1, 1000, 10_000_000} {
						c := Case{Remaining: rem, Inc: inc, OppTime: 60000, OppInc: 1000, MoveTime: mt, Stm: stm}
						if err := checkCase(c, rec); err != nil {
							rec.Violate("grid", err.Error(), c)
							return
						}
					}
				}
			}
		}
		rec.Exhaustive("clock grid: remaining 1..400 step 1 + break points + decades to 10^12, x increments 0..100 + decades to 10^9 + crossing points, x colours x move times")
		rec.Sample("grid", Case{Remaining: 31, Inc: 0, OppTime: 60000, OppInc: 1000, Stm: 0})
		rec.Rapid(t, "random", evid.Pick(1000000, 200000000), func(t *rapid.T) {
			pick := func(l string, lo int64) int64 {
				switch gen.Draw(t, 0, 3, l+"k") {
				case 0:
					return rapid.Int64Range(lo, 1000).Draw(t, l)
				case 1:
					return rapid.Int64Range(lo, 1_000_000).Draw(t, l)
				default:
					return rapid.Int64Range(lo, 1_000_000_000_000).Draw(t, l)
				}
			}
			c := Case{Remaining: pick("rem", 1), Inc: min(pick("inc", 0), 1_000_000_000), OppTime: pick("ot", 0), OppInc: min(pick("oi", 0), 1_000_000_000), Stm: gen.Draw(t, 0, 1, "stm")}
			if gen.Chance(t, 1, 4, "mt") {
				c.MoveTime = min(pick("mt", 1), 10_000_000)
			}
			if err := checkCase(c, rec); err != nil {
				rec.Fail("random", err.Error(), c)
				t.Fatalf("%v", err)
			}
		})
		rec.Rapid(t, "driver", evid.Pick(2000, 60000), func(t *rapid.T) {
			c := Case{Remaining: rapid.Int64Range(1, 10_000_000).Draw(t, "rem"), Inc: rapid.Int64Range(0, 100000).Draw(t, "inc"), OppTime: rapid.Int64Range(1, 10_000_000).Draw(t, "ot"), OppInc: rapid.Int64Range(0, 100000).Draw(t, "oi"), Stm: gen.Draw(t, 0, 1, "stm"), Driver: true}
			if gen.Chance(t, 1, 4, "mt") {
				c.MoveTime = rapid.Int64Range(1, 100000).Draw(t, "mt")
			}
			for np := gen.Draw(t, 0, 4, "nprev") - 2; np > 0; np-- { // half of the sessions carry earlier go commands
				c.Prev = append(c.Prev, drawPrev(t))
			}
			if rec.WantSample("driver") {
				rec.Sample("driver", c)
			}
			if err := checkCase(c, rec); err != nil {
				rec.Fail("driver", err.Error(), c)
				t.Fatalf("%v", err)
			}
		})
		// blocking search: the deadline must fire at all (wall clock observation, generous ceiling, three attempts)
		for i := 0; i < evid.Pick(2, 6); i++ {
			c := Case{Remaining: 40 + int64((int(evid.Seed())+37*i)%81), Inc: 0, OppTime: 1000, OppInc: 0, Stm: i % 2, Driver: true, Block: true, PonderOpt: i%2 == 1}
			// every second session has answered other go commands before (a long move time, a rich clock with a
			// large increment, a depth search): nothing of them may survive into the judged command's deadline
			if i%2 == 1 {
				shd, _ := evid.Shard()
				c.Prev = [][]string{{"movetime 60000"}, {"wtime 3600000 btime 3600000 winc 30000 binc 30000", "movetime 7000"}, {"depth 3", "movetime 4000", "nodes 100"}, {"ponder wtime 300000 btime 300000 winc 2000 binc 2000|stop"}, {"ponder wtime 300000 btime 300000|hit", "ponder wtime 200000 btime 200000|stop"}}[(i/2+int(evid.Seed())+shd)%5]
			}
			var err error
			for attempt := 0; attempt < 3; attempt++ {
				if err = driverCase(c, rec); err == nil {
					break
				}
			}
			if err != nil {
				rec.Violate("deadline", err.Error(), c)
			}
		}
		// after ponderhit the deadline must be the hard limit (increment much larger than the remaining time: soft >> hard)
		for i := 0; i < evid.Pick(2, 8); i++ {
			sh, _ := evid.Shard()
			if sh%4 != 0 {
				break
			}
			c := Case{Remaining: 100 + int64((int(evid.Seed())*31+97*i)%300), Inc: 8000 + int64(1000*i), OppTime: 60000, OppInc: 0, Stm: i % 2, Driver: true, Ponder: true, Plies: (i + 1) % 3}
			var err error
			for attempt := 0; attempt < 3; attempt++ {
				if err = driverCase(c, rec); err == nil {
					break
				}
			}
			if err != nil {
				rec.Violate("ponder_deadline", err.Error(), c)
			}
		}
	}, func(check string, raw json.RawMessage) error {
		var c Case
		if err := json.Unmarshal(raw, &c); err != nil {
			return err
		}
		return checkCase(c, nil)
	})
}
