// C15 - the transposition table returns only what was stored for that key.
package c15

import (
	"encoding/json"
	"fmt"
	"sync"
	"testing"

	"github.com/paulsonkoly/chess-3/board"
	"github.com/paulsonkoly/chess-3/chess"
	"github.com/paulsonkoly/chess-3/move"
	"github.com/paulsonkoly/chess-3/transp"
	"pgregory.net/rapid"

	"verif/evid"
	"verif/gen"
)

// Op is one operation of a sequence.
type Op struct {
	Kind  string `json:"k"` // store probe clear resize resize_noclear newsearch
	Key   uint64 `json:"key,omitempty"`
	Depth int    `json:"d,omitempty"`
	Ply   int    `json:"ply,omitempty"`
	Move  int    `json:"m,omitempty"`
	Value int    `json:"v,omitempty"`
	Type  int    `json:"t,omitempty"`
	Size  int    `json:"size,omitempty"`
}

// Case is an initial table size and an operation sequence.
type Case struct {
	Size int  `json:"size"`
	Ops  []Op `json:"ops"`
	// large-table leg: the operations are derived from these (see bigOps)
	BigMB   int    `json:"big_mb,omitempty"`
	BigKeys int    `json:"big_keys,omitempty"`
	Salt    uint64 `json:"salt,omitempty"`
}

// bigOps: resize a 1 MiB table to mb MiB and clear it (what `setoption name Hash` + `ucinewgame` do), store k keys
// spread evenly over the whole bucket range, probe them, clear, probe them again (nothing may have survived),
// then store shallow bounds without a move under the same keys in a new search and probe once more.
func bigOps(mb, k int, salt uint64) []Op {
	ops := []Op{{Kind: "resize", Size: mb << 20}}
	step := uint64(1<<32) / uint64(k)
	keys := make([]uint64, k)
	for j := range keys {
		low := uint64(j)*step + salt%step
		keys[j] = uint64(j%0xfffe+1)<<48 | (salt>>8&0xffff)<<32 | low
	}
	for j, key := range keys {
		ops = append(ops, Op{Kind: "store", Key: key, Depth: 20 + j%40, Ply: j % 64, Move: 1 + j%30000, Value: j%2000 - 1000, Type: j % 3})
	}
	for _, key := range keys {
		ops = append(ops, Op{Kind: "probe", Key: key, Ply: 3})
	}
	ops = append(ops, Op{Kind: "clear"})
	for _, key := range keys {
		ops = append(ops, Op{Kind: "probe", Key: key, Ply: 3})
	}
	for j, key := range keys {
		ops = append(ops, Op{Kind: "store", Key: key, Depth: 1, Ply: j % 64, Value: j%200 - 100, Type: 1 + j%2})
	}
	for _, key := range keys {
		ops = append(ops, Op{Kind: "probe", Key: key, Ply: 5})
	}
	return ops
}

type slot struct {
	bucket int
	sig    uint64
}

type ment struct {
	depth, typ, value, ply, mv int
	gen                        transp.Gen
}

const (
	inf      = int(chess.Inf)
	maxPlies = chess.MaxPlies
)

// rebase is the value a probe at probePly must see for a value stored at storePly.
func rebase(v, storePly, probePly int) int {
	if v > inf-maxPlies || v < -inf+maxPlies {
		if v > 0 {
			return v + storePly - probePly
		}
		return v - storePly + probePly
	}
	return v
}

type world struct {
	t       *transp.Table
	model   map[slot]*ment
	zero    map[int][]ment // every store under a zero signature, per bucket, since the last clear
	gen     transp.Gen
	judged  bool // false between a resize without clear and the next clear
	rec     *evid.Rec
	evicted int
	refused int
	kept    int
	rebased int
}

// sigBits lists the bits of a key that make up its signature, learnt once from the table itself: on a
// one-bucket table a stored key is probed with each single bit flipped; the flips that turn the hit into a miss
// are the signature bits (the pinned implementation: the top 16). Which bits of the key the table keeps as the
// signature is its own business; the property only speaks of "bucket and signature".
var sigBits = sync.OnceValue(func() []uint {
	def := []uint{48, 49, 50, 51, 52, 53, 54, 55, 56, 57, 58, 59, 60, 61, 62, 63}
	t := transp.New(32)
	const k0 = uint64(0xa5c3a5c3a5c3a5c3)
	var bits []uint
	for i := uint(0); i < 64; i++ {
		t.Clear()
		t.Insert(board.Hash(k0), 0, 1, 0, 1, 0, transp.Exact)
		if _, hit := t.LookUp(board.Hash(k0)); !hit || t.VerifBuckets() != 1 {
			return def
		}
		if _, hit := t.LookUp(board.Hash(k0 ^ 1<<i)); !hit {
			bits = append(bits, i)
		}
	}
	if len(bits) == 0 || len(bits) > 32 {
		return def
	}
	return bits
})

func sigOf(key uint64) uint64 {
	var s uint64
	for i, b := range sigBits() {
		s |= (key >> b & 1) << uint(i)
	}
	return s
}

func (w *world) slotOf(key uint64) slot {
	return slot{w.t.VerifBucketIx(board.Hash(key)), sigOf(key)}
}

// probeSlot looks a slot up through any key that maps to it.
func (w *world) check(s slot, key uint64, probePly int) (hit bool, err error) {
	e, ok := w.t.LookUp(board.Hash(key))
	me := w.model[s]
	if !ok {
		return false, nil
	}
	if me == nil {
		return true, fmt.Errorf("probe of key %016x (bucket %d signature %04x) hits (depth %d type %d value %d move %v) but nothing is stored under it", key, s.bucket, s.sig, e.Depth(), e.Type(), e.Value(chess.Depth(probePly)), e.Move)
	}
	wantV := rebase(me.value, me.ply, probePly)
	gotV := int(e.Value(chess.Depth(probePly)))
	if me.value == inf-maxPlies || me.value == -inf+maxPlies {
		// the exact boundary of the mate range: either consistent reading is accepted (treated as a mate
		// distance on both sides, or on neither), an inconsistent one is not
		alt := me.value + me.ply - probePly
		if me.value < 0 {
			alt = me.value - me.ply + probePly
		}
		if gotV == alt {
			wantV = alt
		}
	}
	if int(e.Depth()) != me.depth || int(e.Type()) != me.typ || gotV != wantV || int(e.Move) != me.mv {
		return true, fmt.Errorf("probe of key %016x at ply %d returns depth %d type %d value %d move %v; stored: depth %d type %d value %d (stored at ply %d => %d) move %v",
			key, probePly, e.Depth(), e.Type(), e.Value(chess.Depth(probePly)), e.Move, me.depth, me.typ, me.value, me.ply, wantV, move.Move(me.mv))
	}
	if wantV != me.value {
		w.rebased++
	}
	return true, nil
}

// keyFor rebuilds some key for a slot: the low 32 bits are not recoverable from a bucket index, so slots remember one.
type keyed struct {
	key uint64
}

func (w *world) apply(op Op, keys map[slot]uint64) error {
	switch op.Kind {
	case "clear":
		w.t.Clear()
		w.model = map[slot]*ment{}
		w.zero = map[int][]ment{}
		w.judged = true
		clear(keys)
	case "resize":
		w.t.Resize(op.Size)
		w.t.Clear()
		w.model = map[slot]*ment{}
		w.zero = map[int][]ment{}
		w.judged = true
		clear(keys)
	case "resize_noclear":
		w.t.Resize(op.Size)
		w.judged = false
		w.model = map[slot]*ment{}
		w.zero = map[int][]ment{}
		clear(keys)
	case "newsearch":
		w.gen++
	case "probe":
		s := w.slotOf(op.Key)
		if !w.judged {
			w.t.LookUp(board.Hash(op.Key)) // memory safety only
			return nil
		}
		if s.sig == 0 {
			return w.probeZero(op, s)
		}
		hit, err := w.check(s, op.Key, op.Ply)
		if err != nil {
			return err
		}
		if !hit && w.model[s] != nil {
			return fmt.Errorf("probe of key %016x misses although it was stored and nothing was stored in its bucket since", op.Key)
		}
	case "store":
		s := w.slotOf(op.Key)
		w.t.Insert(board.Hash(op.Key), w.gen, chess.Depth(op.Depth), chess.Depth(op.Ply), move.Move(op.Move), chess.Score(op.Value), transp.Type(op.Type))
		if !w.judged {
			return nil
		}
		newE := ment{op.Depth, op.Type, op.Value, op.Ply, op.Move, w.gen}
		if s.sig == 0 {
			return w.storeZero(op, s, newE, keys)
		}
		old := w.model[s]
		refusedNow := false
		if old != nil {
			if op.Type != int(transp.Exact) && old.depth > op.Depth+2 && old.gen == w.gen {
				refusedNow = true
				w.refused++
			} else {
				if newE.mv == 0 && old.mv != 0 {
					newE.mv = old.mv
					w.kept++
				}
				w.model[s] = &newE
			}
		} else {
			w.model[s] = &newE
		}
		_ = refusedNow
		keys[s] = op.Key
		return w.sweep(s.bucket, &s, keys, op)
	}
	return nil
}

// sweep probes every modelled slot of the bucket after a store: hits must equal the model, at most one other slot may have vanished.
func (w *world) sweep(bucket int, just *slot, keys map[slot]uint64, op Op) error {
	gone := 0
	for s := range w.model {
		if s.bucket != bucket {
			continue
		}
		hit, err := w.check(s, keys[s], op.Ply)
		if err != nil {
			return fmt.Errorf("after store of key %016x: %v", op.Key, err)
		}
		if !hit {
			if just != nil && s == *just {
				return fmt.Errorf("probe immediately after the store of key %016x (depth %d type %d gen %d) misses", op.Key, op.Depth, op.Type, w.gen)
			}
			gone++
			delete(w.model, s)
			delete(keys, s)
			w.evicted++
		}
	}
	if gone > 1 {
		return fmt.Errorf("store of key %016x made %d other keys of its bucket unreachable", op.Key, gone)
	}
	return nil
}

// storeZero: keys whose signature is zero collide with the encoding of "empty"; only the clauses the property keeps are judged.
func (w *world) storeZero(op Op, s slot, newE ment, keys map[slot]uint64) error {
	e, ok := w.t.LookUp(board.Hash(op.Key))
	if !ok {
		return fmt.Errorf("probe immediately after the store of the zero-signature key %016x misses", op.Key)
	}
	match := func(m ment) bool {
		return int(e.Depth()) == m.depth && int(e.Type()) == m.typ && int(e.Value(chess.Depth(op.Ply))) == rebase(m.value, m.ply, op.Ply)
	}
	okNow := match(newE)
	if !okNow && op.Type != int(transp.Exact) {
		// refused in favour of a deeper same-search entry stored earlier under the zero signature
		for _, m := range w.zero[s.bucket] {
			if m.depth > op.Depth+2 && m.gen == w.gen && match(m) {
				okNow = true
				break
			}
		}
	}
	if !okNow {
		return fmt.Errorf("probe after the store of the zero-signature key %016x returns depth %d type %d value %d, which is neither this store nor a deeper same-search entry", op.Key, e.Depth(), e.Type(), e.Value(chess.Depth(op.Ply)))
	}
	w.zero[s.bucket] = append(w.zero[s.bucket], newE)
	return w.sweep(s.bucket, nil, keys, op)
}

func (w *world) probeZero(op Op, s slot) error {
	e, ok := w.t.LookUp(board.Hash(op.Key))
	if !ok {
		return nil
	}
	if e.Depth() == 0 && e.Type() == 0 && e.Value(0) == 0 && e.Move == 0 {
		return nil // the excluded phantom: an empty lane
	}
	for _, m := range w.zero[s.bucket] {
		if int(e.Depth()) == m.depth && int(e.Type()) == m.typ && int(e.Value(chess.Depth(op.Ply))) == rebase(m.value, m.ply, op.Ply) {
			return nil
		}
	}
	return fmt.Errorf("probe of the zero-signature key %016x returns depth %d type %d value %d, never stored under a zero signature in bucket %d", op.Key, e.Depth(), e.Type(), e.Value(chess.Depth(op.Ply)), s.bucket)
}

func checkCase(c Case, rec *evid.Rec) (err error) {
	defer func() {
		if r := recover(); r != nil {
			err = fmt.Errorf("panic: %v", r)
		}
	}()
	w := &world{t: transp.New(c.Size), model: map[slot]*ment{}, zero: map[int][]ment{}, judged: true, rec: rec}
	keys := map[slot]uint64{}
	if c.BigMB > 0 {
		c.Ops = bigOps(c.BigMB, c.BigKeys, c.Salt)
	}
	for i, op := range c.Ops {
		if err := w.apply(op, keys); err != nil {
			return fmt.Errorf("op %d %+v (table of %d buckets, generation %d): %v", i, op, w.t.VerifBuckets(), w.gen, err)
		}
	}
	if rec != nil {
		rec.Eval(len(c.Ops))
		nt := false
		for _, x := range []struct {
			n    int
			name string
		}{{w.evicted, "eviction"}, {w.refused, "keep_deeper_refusal"}, {w.kept, "kept_move"}, {w.rebased, "mate_value_rebased"}} {
			if x.n > 0 {
				rec.ClassN(x.name, x.n)
				nt = true
			}
		}
		if nt {
			rec.NT(evid.H(c))
		}
	}
	return nil
}

var sizes = []int{32, 64, 96, 1024, 32 * 1024, 1 << 20}
var lows = []uint64{0, 1, 1 << 31, 1<<32 - 1, 0x12345678, 0x9abcdef0, 0x7fffffff, 0x80000001}
var sigs = []uint64{0, 1, 0x7fff, 0x8000, 0xffff, 0x1234, 0xfedc, 2, 0x0100}

func drawKey(t *rapid.T) uint64 {
	low := lows[gen.Draw(t, 0, len(lows)-1, "low")]
	sig := sigs[gen.Draw(t, 1, len(sigs)-1, "sig")]
	if gen.Chance(t, 1, 25, "zeroSig") {
		sig = 0
	}
	mid := uint64(gen.Draw(t, 0, 3, "mid")) * 0x5555
	return sig<<48 | (mid&0xffff)<<32 | low
}

func drawValue(t *rapid.T) int {
	switch gen.Draw(t, 0, 5, "vk") {
	case 0:
		return 0
	case 1: // just inside the non-mate range, and its exact boundary
		return []int{1, -1}[gen.Draw(t, 0, 1, "sgn")] * gen.Draw(t, inf-maxPlies-6, inf-maxPlies, "near")
	case 2, 3: // mate bands
		return []int{1, -1}[gen.Draw(t, 0, 1, "sgn")] * gen.Draw(t, inf-maxPlies+1, inf, "mate")
	default:
		return gen.Draw(t, -inf+maxPlies+1, inf-maxPlies-1, "v")
	}
}

func lanes(w uint64, key uint16) (int, bool) {
	for i := 0; i < 4; i++ {
		if uint16(w>>(16*i)) == key {
			return i, true
		}
	}
	return 0, false
}

func TestC15(t *testing.T) {
	evid.Main(t, "C15", func(rec *evid.Rec) {
		rec.Note("signature bits of a key, learnt from a one-bucket table: %v", sigBits())
		rec.Rule("model-based sequences (<=250 ops) of store / probe / clear / resize-then-clear / resize-without-clear / new-search (8 bit generation wraps) on tables of 1, 2, 3, 32, 1024 and 32768 buckets; keys from a pool built to collide: 8 low words x 9 signatures (incl. 0, 1, 0x7fff, 0x8000, 0xffff) x 4 middle words, so same-bucket/different-signature, same-signature/different-bucket and indistinguishable aliases all occur; depth 0..63, ply 0..63, three bound types, null and non-null moves, values over the whole range with weight on 0, the band just inside +-(Inf-MaxPlies) and the mate bands (for the two exact boundary values either consistent reading - re-based or not - is accepted). Model: map (bucket index via hook, signature) -> last accepted store with keep-deeper refusal and kept move; after every store every modelled slot of the bucket is probed: hits equal the model (mate values re-based), at most one other slot vanished, the stored slot hits; probes of unmodelled non-zero signatures must miss. Zero signatures: only 'immediate probe hits and reflects the store (or the deeper same-search entry)' and 'hits return something stored under a zero signature or the empty entry'. After resize without clear nothing is judged but panics. Large tables: a 1 MiB table resized to 2..48 MiB (thorough: ..320 MiB, any whole number), cleared, filled with 1500 keys spread evenly over the whole bucket range, probed, cleared, probed again (nothing may survive a clear), re-filled with shallow bounds without a move, probed. Lane matcher checked directly against a four-lane loop. Non-trivial = sequence with an eviction, a keep-deeper refusal, a kept move or a re-based mate value; distinct by sequence")
		rec.Assume("hooks transp.VerifBucketIx / VerifBuckets / VerifMatch64 (build tag verif) only read; victim choice is left free as in the property")
		rec.Rapid(t, "sequence", evid.Pick(80000, 1500000), func(t *rapid.T) {
			c := Case{Size: sizes[gen.Draw(t, 0, len(sizes)-1, "size")]}
			n := gen.Draw(t, 1, 250, "ops")
			var pool []uint64
			for i := 0; i < n; i++ {
				var op Op
				switch k := gen.Draw(t, 0, 39, "kind"); {
				case k < 24:
					op = Op{Kind: "store", Key: drawKey(t), Depth: gen.Draw(t, 0, 63, "d"), Ply: gen.Draw(t, 0, 63, "ply"), Value: drawValue(t), Type: gen.Draw(t, 0, 2, "type")}
					if gen.Chance(t, 2, 3, "mv") {
						op.Move = gen.Draw(t, 1, 1<<15-1, "mv")
					}
					pool = append(pool, op.Key)
				case k < 33:
					op = Op{Kind: "probe", Key: drawKey(t), Ply: gen.Draw(t, 0, 63, "ply")}
					if len(pool) > 0 && gen.Chance(t, 2, 3, "known") {
						op.Key = pool[gen.Draw(t, 0, len(pool)-1, "pk")]
					}
				case k < 37:
					op = Op{Kind: "newsearch"}
					if gen.Chance(t, 1, 10, "manyGens") { // walk the 8 bit counter towards its wrap
						for j := gen.Draw(t, 100, 260, "gens"); j > 0; j-- {
							c.Ops = append(c.Ops, op)
						}
					}
				case k == 37:
					op = Op{Kind: "clear"}
				case k == 38:
					op = Op{Kind: "resize", Size: sizes[gen.Draw(t, 0, len(sizes)-1, "size")]}
				default:
					op = Op{Kind: "resize_noclear", Size: sizes[gen.Draw(t, 0, len(sizes)-1, "size")]}
				}
				c.Ops = append(c.Ops, op)
			}
			if rec.WantSample("sequence") && len(c.Ops) < 30 {
				rec.Sample("sequence", c)
			}
			if err := checkCase(c, rec); err != nil {
				rec.Fail("sequence", err.Error(), c)
				t.Fatalf("%v", err)
			}
		})
		// every table size the Hash option offers must be cleared completely and usable over its whole range
		rec.Rapid(t, "large_tables", evid.Pick(3, 40), func(t *rapid.T) {
			c := Case{Size: 1 << 20, BigMB: gen.Draw(t, 2, evid.Pick(48, 320), "mb"), BigKeys: 1500, Salt: uint64(gen.Draw(t, 0, 1<<30, "salt"))}
			if err := checkCase(c, rec); err != nil {
				rec.Fail("large_tables", err.Error(), c)
				t.Fatalf("%v", err)
			}
			rec.Class("table_of_2..48_MiB_or_more_resized_cleared_and_used_over_its_whole_range")
		})
		rec.Rapid(t, "match64", evid.Pick(1000000, 20000000), func(t *rapid.T) {
			var w uint64
			vals := []uint16{0, 1, 0x7fff, 0x8000, 0xffff, 0x8001, 0x0100, 0x00ff}
			pick := func(l string) uint16 {
				if gen.Chance(t, 3, 4, "structured"+l) {
					return vals[gen.Draw(t, 0, len(vals)-1, l)]
				}
				return uint16(gen.Draw(t, 0, 0xffff, l))
			}
			for i := 0; i < 4; i++ {
				w |= uint64(pick("lane")) << (16 * i)
			}
			key := pick("key")
			gi, gok := transp.VerifMatch64(w, key)
			wi, wok := lanes(w, key)
			rec.Eval(1)
			if gok {
				rec.NT(evid.H("m64", w, key))
			}
			if gok != wok || (gok && gi != wi) {
				c := map[string]any{"word": w, "key": key}
				msg := fmt.Sprintf("match64(%016x, %04x) = (%d, %v), lane loop says (%d, %v)", w, key, gi, gok, wi, wok)
				rec.Fail("match64", msg, c)
				t.Fatalf("%s", msg)
			}
		})
		// structured exhaustive lane matcher table: every key (quick: every 5th) x every word whose four lanes
		// are drawn from eight variants of the key (the key itself, its neighbours, sign flips, 0, 0xffff)
		{
			shard, n := evid.Shard()
			step := evid.Pick(5, 1)
			for key := shard * step; key < 65536; key += n * step {
				k := uint16(key)
				variants := [8]uint16{k, k + 1, k - 1, k ^ 0x8000, 0, 0xffff, ^k, k + 0x100}
				for code := 0; code < 4096; code++ {
					var w uint64
					for lane := 0; lane < 4; lane++ {
						w |= uint64(variants[code>>(3*lane)&7]) << (16 * lane)
					}
					gi, gok := transp.VerifMatch64(w, k)
					wi, wok := lanes(w, k)
					if gok != wok || (gok && gi != wi) {
						rec.Violate("match64", fmt.Sprintf("match64(%016x, %04x) = (%d, %v), lane loop says (%d, %v)", w, k, gi, gok, wi, wok), map[string]any{"word": w, "key": k})
						return
					}
				}
				rec.Eval(4096)
				rec.NT(evid.H("m64table", key))
			}
			if step == 1 {
				rec.Exhaustive("lane matcher: all 65536 keys x 4096 words built from eight key-relative lane values")
			}
		}
	}, func(check string, raw json.RawMessage) error {
		if check == "match64" {
			var c struct {
				Word uint64 `json:"word"`
				Key  uint16 `json:"key"`
			}
			if err := json.Unmarshal(raw, &c); err != nil {
				return err
			}
			gi, gok := transp.VerifMatch64(c.Word, c.Key)
			wi, wok := lanes(c.Word, c.Key)
			if gok != wok || (gok && gi != wi) {
				return fmt.Errorf("match64(%016x, %04x) = (%d, %v), lane loop says (%d, %v)", c.Word, c.Key, gi, gok, wi, wok)
			}
			return nil
		}
		var c Case
		if err := json.Unmarshal(raw, &c); err != nil {
			return err
		}
		return checkCase(c, nil)
	})
}
