// C16 - move picker yields every pseudo-legal move exactly once, hash move first.
package c16

import (
	"encoding/json"
	"fmt"
	"sort"
	"testing"

	"github.com/paulsonkoly/chess-3/board"
	"github.com/paulsonkoly/chess-3/chess"
	"github.com/paulsonkoly/chess-3/heur"
	"github.com/paulsonkoly/chess-3/move"
	"github.com/paulsonkoly/chess-3/picker"
	"github.com/paulsonkoly/chess-3/stack"
	"pgregory.net/rapid"

	"verif/eng"
	"verif/evid"
	"verif/gen"
	"verif/refchess"
)

// Train is one history update: at the position after Prefix moves of the case's
// path a picker yields Yield moves, their weights are set from Weights
// (cyclically) and FailHigh(Depth) is applied Repeat times.
type Train struct {
	At      int   `json:"at"`
	Yield   int   `json:"yield"`
	Depth   int   `json:"depth"`
	Repeat  int   `json:"repeat"`
	Weights []int `json:"weights"`
}

// Case: position = FEN + Path; the ranker is trained along the path; then the picker is exercised at the end position.
type Case struct {
	FEN    string   `json:"fen"`
	Path   []string `json:"path,omitempty"`
	Train  []Train  `json:"train,omitempty"`
	Hash   int      `json:"hash"`   // candidate hash move encoding
	Nest   []int    `json:"nest"`   // nesting: at level i stop the outer picker after Nest[i] yields and descend
	Hashes []int    `json:"hashes"` // hash move candidates for the nested levels
	// Frameless: the outermost picker runs without a frame of its own on the move store (the way the
	// repository's own picker test uses it); inner pickers push frames as the search does
	Frameless bool `json:"frameless,omitempty"`
}

type world struct {
	b         *board.Board
	ms        *move.Store
	ranker    heur.MoveRanker
	hstack    *stack.Stack[heur.StackMove]
	aux       *move.Store // for the reference enumeration only
	frameless bool
}

func sortedEnc(ms []move.Move) []int {
	r := make([]int, len(ms))
	for i, m := range ms {
		r[i] = int(m)
	}
	sort.Ints(r)
	return r
}

// drain runs a picker from its current state to exhaustion and returns the yielded encodings.
func drain(p *picker.Picker) []move.Move {
	var res []move.Move
	for p.Next() {
		res = append(res, p.Move().Move)
		if len(res) > 600 {
			break
		}
	}
	return res
}

func equalInts(a, b []int) bool {
	if len(a) != len(b) {
		return false
	}
	for i := range a {
		if a[i] != b[i] {
			return false
		}
	}
	return true
}

// bands checks that every weight the ranker assigns at this position lies in its band: quiet weights (the moves
// of the quiet generator, ranked the way the picker ranks them) strictly between the capture bands and above the
// duplicate sentinel, noisy weights inside the good or the bad capture band. How wide the quiet band is inside
// those limits is the design's business (the single counters are checked against heur.MaxHistory elsewhere).
func bands(w *world) error {
	noisy, quiet := eng.GeneratedHalves(w.aux, w.b)
	for _, m := range quiet {
		q := w.ranker.RankQuiet(m, w.b, w.hstack)
		if q >= heur.Captures || q <= -heur.Captures || q <= -heur.HashMove+1 {
			return fmt.Errorf("quiet weight %d of %v crosses into a capture band / the duplicate sentinel in %s", q, m, w.b.FEN())
		}
	}
	for _, m := range noisy {
		n := w.ranker.RankNoisy(m, w.b, w.hstack)
		good := n >= heur.Captures && n < heur.HashMove
		bad := n <= -heur.Captures && n > -heur.HashMove+1
		if !good && !bad {
			return fmt.Errorf("noisy weight %d of %v outside the capture bands", n, m)
		}
	}
	return nil
}

// exercise runs the picker at the current position with the given hash move and nesting plan.
func exercise(w *world, hash move.Move, nest []int, hashes []int, level int, rec *evid.Rec) error {
	want := eng.Generated(w.aux, w.b)
	wantSorted := sortedEnc(want)
	pseudo := w.b.IsPseudoLegal(hash)
	fen := w.b.FEN()

	pck := picker.New(w.b, hash, w.ms, &w.ranker, w.hstack)
	if level > 0 || !w.frameless {
		w.ms.Push()
		defer w.ms.Pop()
	} else {
		defer w.ms.Clear()
	}

	var got []move.Move
	stopAfter := -1
	if level < len(nest) {
		stopAfter = nest[level]
	}
	for pck.Next() {
		m := pck.Move().Move
		got = append(got, m)
		if len(got) > 600 {
			return fmt.Errorf("picker does not terminate in %s (hash move %v)", fen, hash)
		}
		if len(got) == 1 && pseudo && m != hash {
			return fmt.Errorf("hash move %v is pseudo-legal in %s but the first yield is %v", hash, fen, m)
		}
		if len(got) == stopAfter {
			// the prefix reported must be exactly what was delivered
			ym := pck.YieldedMoves()
			if len(ym) != len(got) {
				return fmt.Errorf("YieldedMoves has %d entries after %d yields in %s", len(ym), len(got), fen)
			}
			for i := range ym {
				if ym[i].Move != got[i] {
					return fmt.Errorf("YieldedMoves[%d] = %v, delivered %v in %s", i, ym[i].Move, got[i], fen)
				}
			}
			// descend like the search does, if the move is legal
			me := w.b.STM
			moved := w.b.SquaresToPiece[m.From()]
			r := w.b.MakeMove(m)
			if !w.b.InCheck(me) {
				w.hstack.Push(heur.StackMove{Piece: moved, To: m.To(), Score: 0})
				h2 := move.Move(0)
				if level < len(hashes) {
					h2 = move.Move(hashes[level])
				}
				err := exercise(w, h2, nest, hashes, level+1, rec)
				w.hstack.Pop()
				if err != nil {
					w.b.UndoMove(m, r)
					return err
				}
				if rec != nil {
					rec.Class("nested_inner_picker")
				}
			}
			w.b.UndoMove(m, r)
		}
	}
	if !equalInts(sortedEnc(got), wantSorted) {
		seen := map[move.Move]int{}
		for _, m := range got {
			seen[m]++
		}
		var dup, extra, missing []string
		gen := map[move.Move]bool{}
		for _, m := range want {
			gen[m] = true
			if seen[m] == 0 {
				missing = append(missing, m.String())
			}
		}
		for m, n := range seen {
			if n > 1 {
				dup = append(dup, m.String())
			}
			if !gen[m] {
				extra = append(extra, m.String())
			}
		}
		return fmt.Errorf("picker in %s with hash move %v (pseudo-legal=%v, nest level %d): yielded twice %v, yielded but not generated %v, never yielded %v", fen, hash, pseudo, level, dup, extra, missing)
	}
	if rec != nil {
		rec.Eval(1)
		owns := w.b.Colors[w.b.STM]&(chess.BitBoard(1)<<hash.From()) != 0
		switch {
		case hash == 0:
			rec.Class("hash_absent")
		case pseudo:
			rec.Class("hash_pseudo_legal")
			if cap := w.b.SquaresToPiece[w.b.CaptureSq(hash)]; cap == chess.NoPiece && hash.Promo() == chess.NoPiece {
				rec.Class("hash_is_quiet")
				rec.NT(evid.H(fen, hash, level))
			}
		case owns:
			rec.Class("hash_invalid_from_own_piece")
			rec.NT(evid.H(fen, hash, level))
		default:
			rec.Class("hash_invalid")
		}
	}
	return nil
}

func checkCase(c Case, rec *evid.Rec) (err error) {
	defer func() {
		if r := recover(); r != nil {
			err = fmt.Errorf("panic: %v", r)
		}
	}()
	p, err := refchess.ParseFEN(c.FEN)
	if err != nil {
		return err
	}
	b, err := eng.FromRef(&p)
	if err != nil {
		return fmt.Errorf("engine rejects valid FEN %q: %v", c.FEN, err)
	}
	w := &world{b: b, ms: move.NewStore(), ranker: heur.NewMoveRanker(), hstack: stack.New[heur.StackMove](), aux: move.NewStore()}
	saturated := false
	for i := 0; i <= len(c.Path); i++ {
		for _, tr := range c.Train {
			if tr.At != i {
				continue
			}
			// a picker run up to tr.Yield moves, as in the move loop of the search, then the fail-high update
			pck := picker.New(w.b, 0, w.ms, &w.ranker, w.hstack)
			w.ms.Push()
			n := 0
			for n < tr.Yield && pck.Next() {
				mv := pck.Move()
				if len(tr.Weights) > 0 {
					mv.Weight = chess.Score(tr.Weights[n%len(tr.Weights)])
				}
				n++
			}
			if n > 0 {
				for k := 0; k < tr.Repeat; k++ {
					w.ranker.FailHigh(chess.Depth(tr.Depth), w.b, pck.YieldedMoves(), w.hstack)
				}
				if tr.Repeat >= 50 {
					saturated = true
				}
			}
			w.ms.Pop()
			if err := bands(w); err != nil {
				return fmt.Errorf("after training step %+v: %v", tr, err)
			}
		}
		if i == len(c.Path) {
			break
		}
		m, err := refchess.ParseMove(c.Path[i])
		if err != nil {
			return err
		}
		em := eng.Enc(m)
		moved := w.b.SquaresToPiece[em.From()]
		w.b.MakeMove(em)
		if w.hstack != nil {
			if _, ok := w.hstack.Top(chess.MaxPlies - 2); ok { // keep the stack below its capacity
				w.hstack.Reset()
			}
			w.hstack.Push(heur.StackMove{Piece: moved, To: em.To(), Score: 0})
		}
	}
	if rec != nil {
		if saturated {
			rec.Class("ranker_saturated")
			rec.NT(evid.H("sat", c.FEN, c.Path, c.Hash))
		} else if len(c.Train) > 0 {
			rec.Class("ranker_trained")
		} else {
			rec.Class("ranker_fresh")
		}
	}
	if err := bands(w); err != nil {
		return err
	}
	w.frameless = c.Frameless
	if rec != nil && len(c.Nest) >= 8 {
		rec.Class("deep_nesting>=8")
	}
	return exercise(w, move.Move(c.Hash), c.Nest, c.Hashes, 0, rec)
}

// hashCandidate draws a hash move: absent, a generated move, a random encoding or a near miss.
func hashCandidate(t *rapid.T, p *refchess.Pos) int {
	pseudo := p.Pseudo()
	switch gen.Draw(t, 0, 5, "hashKind") {
	case 0:
		return 0
	case 1, 2:
		if len(pseudo) > 0 {
			return int(eng.Enc(pseudo[gen.Draw(t, 0, len(pseudo)-1, "hm")]))
		}
	case 3:
		if len(pseudo) > 0 { // near miss: altered promotion bits or target
			m := pseudo[gen.Draw(t, 0, len(pseudo)-1, "hm")]
			if gen.Chance(t, 1, 2, "promoBits") {
				m.Promo = gen.Draw(t, 0, 7, "promo")
			} else {
				m.To = gen.Draw(t, 0, 63, "to")
			}
			return int(eng.Enc(m))
		}
	case 4: // the castling encodings of the side to move, whether or not castling is available right now
		from := 4
		if !p.White {
			from = 60
		}
		return int(eng.Enc(refchess.Move{From: from, To: from + []int{2, -2}[gen.Draw(t, 0, 1, "side")]}))
	}
	return gen.Draw(t, 0, 1<<15-1, "enc")
}

// oneStep exhaustively checks that one update keeps every store inside [-MaxHistory, MaxHistory].
func oneStep(rec *evid.Rec) {
	shard, n := evid.Shard()
	maxH := int(heur.MaxHistory)
	type store struct {
		name  string
		cells int
		clear func()
		add   func(cell int, bonus chess.Score)
		get   func(cell int) chess.Score
	}
	h := heur.NewHistory()
	ch := heur.NewCaptHist()
	co := heur.NewContinuation()
	stores := []store{
		{"History", 2 * 64 * 64, h.Clear,
			func(c int, b chess.Score) { h.Add(chess.Color(c>>12), chess.Square(c>>6&63), chess.Square(c&63), b) },
			func(c int) chess.Score {
				return h.LookUp(chess.Color(c>>12), chess.Square(c>>6&63), chess.Square(c&63))
			}},
		{"CaptHist", 6 * 5 * 64, ch.Clear,
			func(c int, b chess.Score) {
				ch.Add(chess.Piece(1+c/320), chess.Piece(1+c/64%5), chess.Square(c&63), b)
			},
			func(c int) chess.Score {
				return ch.LookUp(chess.Piece(1+c/320), chess.Piece(1+c/64%5), chess.Square(c&63))
			}},
		{"Continuation", 6 * 64 * 6 * 64, co.Clear,
			func(c int, b chess.Score) {
				co.Add(chess.White, chess.Piece(1+c/(64*6*64)), chess.Square(c/(6*64)%64), chess.Piece(1+c/64%6), chess.Square(c&63), b)
			},
			func(c int) chess.Score {
				return co.LookUp(chess.White, chess.Piece(1+c/(64*6*64)), chess.Square(c/(6*64)%64), chess.Piece(1+c/64%6), chess.Square(c&63))
			}},
	}
	for _, st := range stores {
		cell := 0
		st.clear()
		for x := -maxH; x <= maxH; x++ {
			if (x+maxH)%n != shard {
				continue
			}
			for bonus := -32768; bonus <= 32767; bonus++ {
				if cell == st.cells {
					st.clear()
					cell = 0
				}
				st.add(cell, chess.Score(x))
				if got := int(st.get(cell)); got != x {
					rec.Violate("one_step", fmt.Sprintf("%s: Add(%d) on a cleared cell stores %d", st.name, x, got), map[string]any{"store": st.name, "x": x})
					return
				}
				st.add(cell, chess.Score(bonus))
				if got := int(st.get(cell)); got < -maxH || got > maxH {
					rec.Violate("one_step", fmt.Sprintf("%s: stored %d, Add(%d) gives %d outside [-%d, %d]", st.name, x, bonus, got, maxH, maxH), map[string]any{"store": st.name, "x": x, "bonus": bonus})
					return
				}
				cell++
			}
			rec.Eval(65536)
			rec.NT(evid.H("onestep", st.name, x))
		}
		rec.ClassN("one_step_pairs_"+st.name, 1)
	}
	rec.Exhaustive("one-step history update: every stored value in [-MaxHistory, MaxHistory] x every int16 bonus, for History, CaptHist and Continuation")
}

// oneStepCase re-checks a single (store, value, bonus) triple.
func oneStepCase(store string, x, bonus int) error {
	var got int
	switch store {
	case "History":
		h := heur.NewHistory()
		h.Add(chess.White, 0, 1, chess.Score(x))
		h.Add(chess.White, 0, 1, chess.Score(bonus))
		got = int(h.LookUp(chess.White, 0, 1))
	case "CaptHist":
		h := heur.NewCaptHist()
		h.Add(chess.Pawn, chess.Pawn, 0, chess.Score(x))
		h.Add(chess.Pawn, chess.Pawn, 0, chess.Score(bonus))
		got = int(h.LookUp(chess.Pawn, chess.Pawn, 0))
	default:
		h := heur.NewContinuation()
		h.Add(chess.White, chess.Pawn, 0, chess.Pawn, 0, chess.Score(x))
		h.Add(chess.White, chess.Pawn, 0, chess.Pawn, 0, chess.Score(bonus))
		got = int(h.LookUp(chess.White, chess.Pawn, 0, chess.Pawn, 0))
	}
	if m := int(heur.MaxHistory); got < -m || got > m {
		return fmt.Errorf("%s: stored %d, Add(%d) gives %d outside the band", store, x, bonus, got)
	}
	return nil
}

func TestC16(t *testing.T) {
	evid.Main(t, "C16", func(rec *evid.Rec) {
		rec.Rule("positions (suite/bench/synthetic/motif roots + playout path) x hash move candidate {absent, a generated move, near miss with altered promotion bits/target, random 15-bit encoding} x ranker state {fresh, trained by generated FailHigh(d<=63, weights over the whole Score range) calls along the path, saturated by >=50 repeated updates}; the picker is used as the search uses it (picker.New, Push, iterate, Pop on the shared move store) and NESTED: the outer picker is stopped after a drawn number of yields, the move made, an inner picker run to exhaustion on a new frame (recursively), then the outer one resumed. Oracle: multiset of yields == set of GenNoisy+GenNotNoisy, hash move first iff IsPseudoLegal, YieldedMoves == delivered prefix; all weights inside their bands after every update. Exhaustive one-step table: every stored value x every int16 bonus for the three history stores. Non-trivial = pseudo-legal quiet hash move, invalid hash move from an own piece, or saturated ranker; distinct by (position, hash move, nest level)")
		rec.Assume("the engine's own generator is the reference for the move set (C01 checks it against the rules); band limits read from heur.MaxHistory / Captures / HashMove")
		oneStep(rec)
		rec.Rapid(t, "picker", evid.Pick(60000, 3000000), func(t *rapid.T) {
			root, label := gen.Root(t)
			c := Case{FEN: root.FEN()}
			end := gen.Playout(t, root, 16, func(ply int, p *refchess.Pos, legal []refchess.Move, m refchess.Move) bool {
				c.Path = append(c.Path, m.String())
				return true
			})
			rec.Class("root_" + label)
			switch gen.Draw(t, 0, 3, "ranker") {
			case 1, 2: // trained
				n := gen.Draw(t, 1, 12, "trainSteps")
				for i := 0; i < n; i++ {
					tr := Train{At: gen.Draw(t, 0, len(c.Path), "at"), Yield: gen.Draw(t, 1, 40, "yield"), Depth: gen.Draw(t, 0, 63, "d"), Repeat: gen.Draw(t, 1, 4, "rep")}
					for k := gen.Draw(t, 0, 5, "nw"); k > 0; k-- {
						tr.Weights = append(tr.Weights, []int{-10000, 10000, -11000, 0, 1, -1, 255, 256, -256, 32767, -32768}[gen.Draw(t, 0, 10, "w")])
					}
					c.Train = append(c.Train, tr)
				}
			case 3: // saturated
				for i := gen.Draw(t, 1, 3, "sat"); i > 0; i-- {
					c.Train = append(c.Train, Train{At: gen.Draw(t, max(0, len(c.Path)-2), len(c.Path), "at"), Yield: gen.Draw(t, 1, 60, "yield"), Depth: 63, Repeat: gen.Draw(t, 50, 120, "rep"), Weights: []int{-10000, 10000}})
				}
			}
			c.Hash = hashCandidate(t, &end)
			depth := gen.Draw(t, 0, 3, "nestDepth")
			if gen.Chance(t, 1, 6, "deepNest") { // as deep as a real search goes: hundreds of moves on the shared store
				depth = gen.Draw(t, 8, 45, "deepNestDepth")
			}
			c.Frameless = gen.Chance(t, 1, 10, "frameless")
			for d := depth; d > 0; d-- {
				c.Nest = append(c.Nest, gen.Draw(t, 1, 30, "stopAfter"))
				if gen.Chance(t, 1, 2, "nestedHash") {
					c.Hashes = append(c.Hashes, gen.Draw(t, 0, 1<<15-1, "nh"))
				} else {
					c.Hashes = append(c.Hashes, 0)
				}
			}
			if rec.WantSample("picker") {
				rec.Sample("picker", c)
			}
			if err := checkCase(c, rec); err != nil {
				rec.Fail("picker", err.Error(), c)
				t.Fatalf("%v", err)
			}
		})
	}, func(check string, raw json.RawMessage) error {
		var c Case
		if err := json.Unmarshal(raw, &c); err != nil {
			return err
		}
		if c.FEN == "" {
			var o struct {
				Store string `json:"store"`
				X     int    `json:"x"`
				Bonus int    `json:"bonus"`
			}
			if err := json.Unmarshal(raw, &o); err != nil {
				return err
			}
			return oneStepCase(o.Store, o.X, o.Bonus)
		}
		return checkCase(c, nil)
	})
}
