// C17 - static evaluation is colour-symmetric and depends only on the position.
package c17

import (
	"encoding/json"
	"fmt"
	"strings"
	"testing"

	"github.com/paulsonkoly/chess-3/board"
	"github.com/paulsonkoly/chess-3/chess"
	"github.com/paulsonkoly/chess-3/eval"
	"pgregory.net/rapid"

	"verif/eng"
	"verif/evid"
	"verif/gen"
	"verif/refchess"
)

// Case: the position reached by Moves from FEN.
type Case struct {
	FEN   string   `json:"fen"`
	Moves []string `json:"moves,omitempty"`
	UCI   bool     `json:"uci,omitempty"`
	// Before (uci): conforming position / ucinewgame lines sent on the same driver first (gen.EarlierPositions)
	Before []string `json:"before,omitempty"`
}

func ev(b *board.Board) chess.Score { return eval.Eval(b, &eval.Coefficients) }

func mustBoard(p *refchess.Pos) (*board.Board, error) {
	b, err := eng.FromRef(p)
	if err != nil {
		return nil, fmt.Errorf("engine rejects valid FEN %q: %v", p.FEN(), err)
	}
	return b, nil
}

// relations checks every metamorphic relation at position p; reached is the board that got there by moves (may be nil).
func relations(p refchess.Pos, reached *board.Board, rec *evid.Rec) error {
	b, err := mustBoard(&p)
	if err != nil {
		return err
	}
	base := ev(b)
	// (1) mirror
	mp := gen.MirrorColors(p)
	mb, err := mustBoard(&mp)
	if err != nil {
		return err
	}
	if got := ev(mb); got != base {
		return fmt.Errorf("Eval(%s) = %d but Eval(mirror %s) = %d", p.FEN(), base, mp.FEN(), got)
	}
	// (2) non-positional state: rights, en-passant target, fullmove number, history
	v := p
	v.Castle = [4]bool{}
	v.EP = -1
	v.Full = 1 + (p.Full*7+3)%900
	vb, err := mustBoard(&v)
	if err != nil {
		return err
	}
	if got := ev(vb); got != base {
		return fmt.Errorf("Eval changes from %d to %d when only rights/en-passant/fullmove differ: %s vs %s", base, got, p.FEN(), v.FEN())
	}
	if reached != nil {
		if got := ev(reached); got != base {
			return fmt.Errorf("Eval of the position reached by moves = %d, of the same position loaded from FEN %s = %d", got, p.FEN(), base)
		}
	}
	// (2b) the halfmove clock is part of the input: the same placement with another clock, evaluated
	// immediately before, must not leak into this evaluation (and vice versa)
	q := p
	q.Half = (p.Half + 37) % 101
	qb, err := mustBoard(&q)
	if err != nil {
		return err
	}
	qbase := ev(qb)
	if got := ev(b); got != base {
		return fmt.Errorf("Eval(%s) = %d, but %d right after evaluating the same placement with halfmove clock %d", p.FEN(), base, got, q.Half)
	}
	if got := ev(qb); got != qbase {
		return fmt.Errorf("Eval(%s) = %d first, %d right after evaluating the same placement with halfmove clock %d", q.FEN(), qbase, got, p.Half)
	}
	fresh, _ := mustBoard(&q)
	if got := ev(fresh); got != qbase {
		return fmt.Errorf("Eval(%s) = %d on one board, %d on another", q.FEN(), qbase, got)
	}
	// (3) no hidden state: evaluate something else in between, and make+undo a move
	other := refchess.MustFEN(gen.StartFEN)
	ob, _ := mustBoard(&other)
	_ = ev(ob)
	_ = ev(mb)
	if got := ev(b); got != base {
		return fmt.Errorf("Eval(%s) = %d first, %d after evaluating other positions", p.FEN(), base, got)
	}
	if legal := p.Legal(); len(legal) > 0 {
		m := eng.Enc(legal[len(legal)/2])
		r := b.MakeMove(m)
		_ = ev(b)
		b.UndoMove(m, r)
		if got := ev(b); got != base {
			return fmt.Errorf("Eval(%s) = %d, after make/undo of %v = %d", p.FEN(), base, m, got)
		}
	}
	// the allocation free reader (no hash) as the tuner uses it
	var nb board.Board
	if err := board.ParseFEN(&nb, []byte(p.FEN())); err == nil {
		if got := ev(&nb); got != base {
			return fmt.Errorf("Eval differs between FromFEN (%d) and ParseFEN (%d) boards of %s", base, got, p.FEN())
		}
	}
	if rec != nil {
		rec.Eval(1)
		if p.FEN() != mp.FEN() && base != 0 {
			f := p.FEN()
			rec.NT(evid.HS(f[:len(f)-len(fmt.Sprint(p.Full))-1]))
		}
		if base == 0 {
			rec.Class("eval_zero")
		}
		if eval.KNBvK(b) {
			rec.Class("KNBvK")
		}
		if p.Castle != [4]bool{} {
			rec.Class("has_rights")
		}
		if p.EP >= 0 {
			rec.Class("has_ep_target")
		}
		if p.Half > 0 {
			rec.Class("halfmove_clock>0")
		}
	}
	return nil
}

func checkCase(c Case, rec *evid.Rec) error {
	p, err := refchess.ParseFEN(c.FEN)
	if err != nil {
		return err
	}
	b, err := mustBoard(&p)
	if err != nil {
		return err
	}
	for _, s := range c.Moves {
		m, err := refchess.ParseMove(s)
		if err != nil {
			return err
		}
		b.MakeMove(eng.Enc(m))
		p = p.Make(m)
	}
	if p.Half > 100 {
		return nil
	}
	p = p.NormEP()
	if c.UCI {
		cmd := "position fen " + p.FEN()
		if len(c.Moves) > 0 { // the same position reached through a move list: the driver's board carries a hash history
			cmd = "position fen " + c.FEN + " moves " + strings.Join(c.Moves, " ")
		}
		out, _ := eng.UCI(append(append([]string{}, c.Before...), cmd, "eval"))
		// the command prints the score in UCI notation: "cp <n>"
		got, ok := eng.LastScore(out)
		if !ok {
			return fmt.Errorf("`eval` printed %q", out)
		}
		pb, _ := mustBoard(&p)
		if want := int(ev(pb)); got != want {
			return fmt.Errorf("after %q UCI `eval` printed %d, Eval() = %d for %s", cmd, got, want, p.FEN())
		}
		if rec != nil {
			rec.Eval(1)
			rec.Class("uci_eval")
			if len(c.Moves) > 0 {
				rec.Class("uci_eval_after_move_list")
			}
		}
		return nil
	}
	if len(c.Moves) == 0 {
		b = nil
	}
	return relations(p, b, rec)
}

// minor draws the insufficient-material and knight+bishop classes.
func minor(t *rapid.T) refchess.Pos {
	for attempt := 0; attempt < 6; attempt++ {
		var p refchess.Pos
		p.EP = -1
		sqs := rapid.SliceOfNDistinct(rapid.IntRange(0, 63), 5, 5, rapid.ID[int]).Draw(t, "sq")
		p.Sq[sqs[0]], p.Sq[sqs[1]] = refchess.King, -refchess.King
		side := int8(1)
		if gen.Chance(t, 1, 2, "side") {
			side = -1
		}
		switch gen.Draw(t, 0, 4, "cls") {
		case 0: // KNB v K
			p.Sq[sqs[2]], p.Sq[sqs[3]] = side*refchess.Knight, side*refchess.Bishop
		case 1: // KNN v K, KB v KB ...
			p.Sq[sqs[2]], p.Sq[sqs[3]] = side*refchess.Knight, side*refchess.Knight
		case 2:
			p.Sq[sqs[2]], p.Sq[sqs[3]] = side*refchess.Bishop, -side*refchess.Bishop
		case 3:
			p.Sq[sqs[2]], p.Sq[sqs[3]], p.Sq[sqs[4]] = side*refchess.Bishop, side*refchess.Bishop, -side*refchess.Knight
		default:
			p.Sq[sqs[2]] = side * int8(gen.Draw(t, refchess.Knight, refchess.Bishop, "k"))
		}
		w, b := p.InCheck(true), p.InCheck(false)
		if w && b {
			continue
		}
		p.White = w || (!b && gen.Chance(t, 1, 2, "stm"))
		p.Half, p.Full = gen.Draw(t, 0, 100, "half"), gen.Draw(t, 1, 200, "full")
		if p.Valid() == nil {
			return p
		}
	}
	return refchess.MustFEN("8/8/8/4k3/8/8/8/KNB5 w - - 0 1")
}

func TestC17(t *testing.T) {
	evid.Main(t, "C17", func(rec *evid.Rec) {
		rec.Rule("positions from suite/bench/synthetic (incl. promoted material) / motif roots and playouts, plus bare-king, insufficient-material and K+N+B v K classes of both colours; metamorphic relations with exact integer equality: Eval(b) == Eval(mirror(b)) (mirror built on the reference position: ranks flipped, colours, side, rights and en-passant mapped); Eval unchanged when rights / en-passant target / fullmove number / hash history differ (FEN-loaded vs reached by moves vs ParseFEN board); unchanged by intervening evaluations and by make+undo; UCI `eval` prints the same number, also when the position was reached through a move list with recurrences (third occurrences included). Non-trivial = position differs from its mirror and evaluates non-zero; distinct by placement+side+rights+ep+clock")
		rec.Assume("the mirror transformation is computed by the harness on verif/refchess positions")
		rec.Rapid(t, "relations", evid.Pick(100000, 15000000), func(t *rapid.T) {
			var c Case
			if gen.Chance(t, 1, 6, "minor") {
				mp := minor(t)
				c = Case{FEN: mp.FEN()}
				rec.Class("minor_piece_ending")
			} else {
				root, label := gen.Root(t)
				c = Case{FEN: root.FEN()}
				gen.Playout(t, root, 12, func(ply int, p *refchess.Pos, legal []refchess.Move, m refchess.Move) bool {
					c.Moves = append(c.Moves, m.String())
					return true
				})
				rec.Class("root_" + label)
			}
			if rec.WantSample("relations") {
				rec.Sample("relations", c)
			}
			if err := checkCase(c, rec); err != nil {
				rec.Fail("relations", err.Error(), c)
				t.Fatalf("%v", err)
			}
		})
		rec.Rapid(t, "uci", evid.Pick(5000, 200000), func(t *rapid.T) {
			root, _ := gen.Root(t)
			end := gen.Playout(t, root, 10, nil)
			c := Case{FEN: end.FEN(), UCI: true}
			if gen.Chance(t, 1, 2, "history") { // a game with recurrences (up to the third occurrence and beyond)
				c = Case{FEN: root.FEN(), UCI: true, Moves: gen.HistoryOpt(t, root, 24, true)}
			}
			if c.Before = gen.EarlierPositions(t, c.FEN, false, c.Moves); len(c.Before) > 0 {
				rec.Class("uci_earlier_position_commands")
			}
			if err := checkCase(c, rec); err != nil {
				rec.Fail("uci", err.Error(), c)
				t.Fatalf("%v", err)
			}
		})
	}, func(check string, raw json.RawMessage) error {
		var c Case
		if err := json.Unmarshal(raw, &c); err != nil {
			return err
		}
		return checkCase(c, nil)
	})
}
