// C18 - exchange evaluation matches the capture-sequence minimax it approximates.
package c18

import (
	"encoding/json"
	"fmt"
	"sort"
	"testing"

	"github.com/paulsonkoly/chess-3/board"
	"github.com/paulsonkoly/chess-3/chess"
	"github.com/paulsonkoly/chess-3/heur"
	"pgregory.net/rapid"

	"verif/eng"
	"verif/evid"
	"verif/gen"
	"verif/refchess"
)

// Case is a position, one legal move and the thresholds to test (empty = the standard set).
type Case struct {
	FEN        string `json:"fen"`
	Move       string `json:"move"`
	Thresholds []int  `json:"thresholds,omitempty"`
}

func val(kind int) int { return int(heur.PieceValues[kind]) }

func kindOf(c int8) int {
	if c < 0 {
		return int(-c)
	}
	return int(c)
}

type xchg struct {
	p       *refchess.Pos
	to      int
	present [64]bool
	maxAtt  int // statistics: most attackers seen on the square at once
	xray    bool
	nodes   int
}

var diag = [4][2]int{{1, 1}, {1, -1}, {-1, 1}, {-1, -1}}
var orth = [4][2]int{{1, 0}, {-1, 0}, {0, 1}, {0, -1}}
var knightD = [8][2]int{{1, 2}, {2, 1}, {2, -1}, {1, -2}, {-1, -2}, {-2, -1}, {-2, 1}, {-1, 2}}
var kingD = [8][2]int{{1, 0}, {1, 1}, {0, 1}, {-1, 1}, {-1, 0}, {-1, -1}, {0, -1}, {1, -1}}

func on(f, r int) bool { return f >= 0 && f < 8 && r >= 0 && r < 8 }

// attackers lists the squares of present pieces of the given colour that attack x.to on the current occupancy.
func (x *xchg) attackers(white bool) []int {
	var res []int
	f, r := x.to%8, x.to/8
	own := func(sq int) bool { c := x.p.Sq[sq]; return x.present[sq] && c != 0 && (c > 0) == white }
	pr := r - 1
	if !white {
		pr = r + 1
	}
	for _, df := range []int{-1, 1} {
		if on(f+df, pr) {
			if sq := pr*8 + f + df; own(sq) && kindOf(x.p.Sq[sq]) == refchess.Pawn {
				res = append(res, sq)
			}
		}
	}
	for _, d := range knightD {
		if on(f+d[0], r+d[1]) {
			if sq := (r+d[1])*8 + f + d[0]; own(sq) && kindOf(x.p.Sq[sq]) == refchess.Knight {
				res = append(res, sq)
			}
		}
	}
	for _, d := range kingD {
		if on(f+d[0], r+d[1]) {
			if sq := (r+d[1])*8 + f + d[0]; own(sq) && kindOf(x.p.Sq[sq]) == refchess.King {
				res = append(res, sq)
			}
		}
	}
	walk := func(dirs [4][2]int, k1 int) {
		for _, d := range dirs {
			for ff, rr := f+d[0], r+d[1]; on(ff, rr); ff, rr = ff+d[0], rr+d[1] {
				sq := rr*8 + ff
				if !x.present[sq] || x.p.Sq[sq] == 0 {
					continue // empty or already traded off: the line is open
				}
				if k := kindOf(x.p.Sq[sq]); own(sq) && (k == k1 || k == refchess.Queen) {
					res = append(res, sq)
				}
				break
			}
		}
	}
	walk(diag, refchess.Bishop)
	walk(orth, refchess.Rook)
	return res
}

// best returns the set of values the side to capture can achieve (>= 0: it may stop), one per tie-break policy path.
// onSquare is the value of the piece currently standing on the target square.
func (x *xchg) best(white bool, onSquare int) map[int]bool {
	x.nodes++
	res := map[int]bool{}
	mine := x.attackers(white)
	if len(mine) == 0 {
		res[0] = true
		return res
	}
	theirs := x.attackers(!white)
	if n := len(mine) + len(theirs); n > x.maxAtt {
		x.maxAtt = n
	}
	least := 1 << 30
	for _, sq := range mine {
		if v := val(kindOf(x.p.Sq[sq])); v < least {
			least = v
		}
	}
	for _, sq := range mine {
		k := kindOf(x.p.Sq[sq])
		if val(k) != least {
			continue
		}
		if k == refchess.King {
			// the king captures only when no enemy attacker remains
			if len(theirs) > 0 {
				res[0] = true
			} else {
				res[onSquare] = true
			}
			continue
		}
		before := len(x.attackers(true)) + len(x.attackers(false))
		x.present[sq] = false
		if len(x.attackers(true))+len(x.attackers(false)) > before-1 {
			x.xray = true
		}
		if x.nodes < 20000 {
			for reply := range x.best(!white, val(k)) {
				res[max(0, onSquare-reply)] = true
			}
		} else {
			res[max(0, onSquare)] = true // safety valve, never reached in practice
		}
		x.present[sq] = true
	}
	return res
}

// reference computes the set S of attainable balances of move m in p.
func reference(p *refchess.Pos, m refchess.Move) (S []int, x *xchg) {
	x = &xchg{p: p, to: m.To}
	for sq, c := range p.Sq {
		x.present[sq] = c != 0
	}
	x.present[m.From] = false
	gain := 0
	if p.IsEP(m) {
		x.present[(m.From/8)*8+m.To%8] = false
		gain = val(refchess.Pawn)
	} else {
		gain = val(kindOf(p.Sq[m.To]))
	}
	moved := val(kindOf(p.Sq[m.From]))
	if m.Promo != 0 {
		gain += val(m.Promo) - val(refchess.Pawn)
		moved += val(m.Promo) - val(refchess.Pawn)
	}
	// the piece that arrived is not an attacker of its own square; keep its square "present" as a blocker-neutral point
	for reply := range x.best(!p.White, moved) {
		S = append(S, gain-reply)
	}
	sort.Ints(S)
	return S, x
}

var grid = []int{0, 1, -1, 100, -100, 300, -300, 500, -500, 900, -900, 1300, -1300}

func checkMove(b *board.Board, p *refchess.Pos, m refchess.Move, extra []int, rec *evid.Rec) error {
	S, x := reference(p, m)
	ts := append([]int{}, grid...)
	for _, v := range S {
		ts = append(ts, v-1, v, v+1)
	}
	ts = append(ts, extra...)
	sort.Ints(ts)
	em := eng.Enc(m)
	got := make([]bool, len(ts))
	for i, t := range ts {
		got[i] = heur.SEE(b, em, chess.Score(t))
		if i > 0 && got[i] && !got[i-1] {
			return fmt.Errorf("SEE not monotone for %v in %s: false at threshold %d, true at %d", m, p.FEN(), ts[i-1], t)
		}
	}
	ok := false
	for _, v := range S {
		all := true
		for i, t := range ts {
			if got[i] != (v >= t) {
				all = false
				break
			}
		}
		if all {
			ok = true
			break
		}
	}
	if rec != nil {
		rec.Eval(len(ts))
		nt := false
		if x.maxAtt >= 2 {
			rec.Class("two_or_more_attackers")
			nt = true
		}
		if x.maxAtt >= 4 {
			rec.Class("four_or_more_attackers")
		}
		if x.xray {
			rec.Class("xray_joins")
			nt = true
		}
		if len(S) > 1 {
			rec.Class("tie_break_matters")
			nt = true
		}
		switch {
		case p.IsEP(m):
			rec.Class("en_passant")
		case m.Promo != 0:
			rec.Class("promotion")
		case p.IsCastle(m):
			rec.Class("castle")
		case p.IsCapture(m):
			rec.Class("capture")
		default:
			rec.Class("quiet")
		}
		if nt {
			f := p.FEN()
			rec.NT(evid.H(f, m))
		}
	}
	if !ok {
		// describe: the engine's switching point
		sw := "never true"
		for i := len(ts) - 1; i >= 0; i-- {
			if got[i] {
				sw = fmt.Sprintf("true up to threshold %d", ts[i])
				break
			}
		}
		return fmt.Errorf("SEE of %v in %s: engine %s; reference exchange values %v", m, p.FEN(), sw, S)
	}
	return nil
}

func checkCase(c Case, rec *evid.Rec) error {
	p, err := refchess.ParseFEN(c.FEN)
	if err != nil {
		return err
	}
	b, err := eng.FromRef(&p)
	if err != nil {
		return fmt.Errorf("engine rejects valid FEN %q: %v", c.FEN, err)
	}
	if c.Move != "" {
		m, err := refchess.ParseMove(c.Move)
		if err != nil {
			return err
		}
		return checkMove(b, &p, m, c.Thresholds, rec)
	}
	for _, m := range p.Legal() {
		if err := checkMove(b, &p, m, c.Thresholds, rec); err != nil {
			return err
		}
	}
	return nil
}

func TestC18(t *testing.T) {
	evid.Main(t, "C18", func(rec *evid.Rec) {
		rec.Rule("positions: battery/x-ray constructions, dense synthetic placements, suite/bench roots and playouts; for EVERY legal move (captures, quiets, en passant, promotions, castling) the set S of exchange balances is computed by a recursive minimax on the destination square (piece values read from heur.PieceValues; least valuable attacker, all tie-breaks explored; attackers recomputed by ray walking on the shrinking occupancy so x-rays join; side may stop; king captures only if no enemy attacker remains; pins and recapture promotions ignored; en passant removes the captured pawn). Thresholds: every v in S and v+-1, the grid {0,+-1,+-100,+-300,+-500,+-900,+-1300}, 3 random in [-1400,1400]. Oracle: some v in S has SEE(t) == (v >= t) for all tested t; monotonicity asserted directly. Evaluations count (position, move, threshold) triples. Non-trivial = >=2 attackers on the square, an x-ray joins, or |S|>1; distinct by (position, move)")
		rec.Assume("reference exchange minimax written in the harness (checks/c18), piece values read from the engine")
		rec.Rapid(t, "see", evid.Pick(80000, 20000000), func(t *rapid.T) {
			var p refchess.Pos
			label := ""
			switch gen.Draw(t, 0, 5, "family") {
			case 4, 5: // en-passant captures with line pieces around (the captured pawn leaves a file and a rank)
				if q, m, name, ok := gen.EPMotif(t); ok {
					p, label = q.Make(m), name
					for i := gen.Draw(t, 0, 3, "liners"); i > 0; i-- {
						sq := gen.Draw(t, 0, 63, "lsq")
						if p.Sq[sq] == 0 {
							k := []int8{refchess.Rook, refchess.Queen, refchess.Bishop}[gen.Draw(t, 0, 2, "lk")]
							if gen.Chance(t, 1, 2, "lcol") {
								k = -k
							}
							p.Sq[sq] = k
						}
					}
					if p.Valid() != nil {
						label = ""
					}
				}
			case 0, 1:
				if q, ok := gen.BatteryMotif(t); ok {
					p, label = q, "battery"
				}
			case 2:
				p, label = gen.Synthetic(t), "synthetic"
			}
			if label == "" {
				p, label = gen.Root(t)
				p = gen.Playout(t, p, 20, nil)
			}
			rec.Class("gen_" + label)
			extra := []int{gen.Draw(t, -1400, 1400, "t1"), gen.Draw(t, -1400, 1400, "t2"), gen.Draw(t, -1400, 1400, "t3")}
			c := Case{FEN: p.FEN(), Thresholds: extra}
			if rec.WantSample(label) {
				rec.Sample(label, c)
			}
			b, err := eng.FromRef(&p)
			if err != nil {
				rec.Fail("see", err.Error(), c)
				t.Fatalf("%v", err)
			}
			for _, m := range p.Legal() {
				if err := checkMove(b, &p, m, extra, rec); err != nil {
					c.Move = m.String()
					rec.Fail("see", err.Error(), c)
					t.Fatalf("%v", err)
				}
			}
		})
	}, func(check string, raw json.RawMessage) error {
		var c Case
		if err := json.Unmarshal(raw, &c); err != nil {
			return err
		}
		return checkCase(c, nil)
	})
}
