// Command ntmerge prints the number of distinct 64 bit hashes in the given little-endian files.
package main

import (
	"encoding/binary"
	"fmt"
	"os"
	"slices"
)

func main() {
	var all []uint64
	for _, fn := range os.Args[1:] {
		data, err := os.ReadFile(fn)
		if err != nil {
			continue
		}
		for i := 0; i+8 <= len(data); i += 8 {
			all = append(all, binary.LittleEndian.Uint64(data[i:]))
		}
	}
	slices.Sort(all)
	fmt.Println(len(slices.Compact(all)))
}
