// Package eng adapts between the reference position type and the engine under test.
package eng

import (
	"fmt"
	"sort"

	"github.com/paulsonkoly/chess-3/board"
	"github.com/paulsonkoly/chess-3/chess"
	"github.com/paulsonkoly/chess-3/move"
	"github.com/paulsonkoly/chess-3/movegen"

	"verif/refchess"
)

// FromRef builds an engine board from the reference position through the
// engine's FEN reader (fresh hash history).
func FromRef(p *refchess.Pos) (*board.Board, error) { return board.FromFEN(p.FEN()) }

// Direct assembles an engine board field by field from the reference position
// without going through the FEN reader.
func Direct(p *refchess.Pos) *board.Board {
	b := &board.Board{}
	for sq, c := range p.Sq {
		if c == 0 {
			continue
		}
		k := c
		col := chess.White
		if c < 0 {
			k = -c
			col = chess.Black
		}
		b.SquaresToPiece[sq] = chess.Piece(k)
		b.Pieces[k] |= chess.BitBoard(1) << sq
		b.Colors[col] |= chess.BitBoard(1) << sq
	}
	if !p.White {
		b.STM = chess.Black
	}
	if p.Castle[refchess.WK] {
		b.Castles |= chess.ShortWhite
	}
	if p.Castle[refchess.WQ] {
		b.Castles |= chess.LongWhite
	}
	if p.Castle[refchess.BK] {
		b.Castles |= chess.ShortBlack
	}
	if p.Castle[refchess.BQ] {
		b.Castles |= chess.LongBlack
	}
	if p.EP >= 0 {
		b.EnPassant = chess.Square(p.EP)
	}
	b.FiftyCnt = chess.Depth(p.Half)
	b.VerifSetFullMoves(p.Full)
	b.ResetHash()
	return b
}

// ToRef reads the exported fields of an engine board into a reference position.
// It reads SquaresToPiece for the kind and Colors for the colour.
func ToRef(b *board.Board) refchess.Pos {
	var p refchess.Pos
	for sq := 0; sq < 64; sq++ {
		k := int8(b.SquaresToPiece[sq])
		if k == 0 {
			continue
		}
		if b.Colors[chess.Black]&(chess.BitBoard(1)<<sq) != 0 {
			k = -k
		}
		p.Sq[sq] = k
	}
	p.White = b.STM == chess.White
	p.Castle[refchess.WK] = b.Castles&chess.ShortWhite != 0
	p.Castle[refchess.WQ] = b.Castles&chess.LongWhite != 0
	p.Castle[refchess.BK] = b.Castles&chess.ShortBlack != 0
	p.Castle[refchess.BQ] = b.Castles&chess.LongBlack != 0
	p.EP = -1
	if b.EnPassant != 0 {
		p.EP = int(b.EnPassant)
	}
	p.Half = int(b.FiftyCnt)
	p.Full = b.VerifFullMoves()
	return p
}

// Generated returns every encoding GenNoisy+GenNotNoisy emit for b, in emission order.
func Generated(ms *move.Store, b *board.Board) []move.Move {
	ms.Push()
	defer ms.Pop()
	movegen.GenNoisy(ms, b)
	movegen.GenNotNoisy(ms, b)
	fr := ms.Frame()
	res := make([]move.Move, len(fr))
	for i, w := range fr {
		res[i] = w.Move
	}
	return res
}

// GeneratedHalves returns the moves of the noisy and of the quiet generator separately.
func GeneratedHalves(ms *move.Store, b *board.Board) (noisy, quiet []move.Move) {
	ms.Push()
	movegen.GenNoisy(ms, b)
	for _, w := range ms.Frame() {
		noisy = append(noisy, w.Move)
	}
	ms.Pop()
	ms.Push()
	movegen.GenNotNoisy(ms, b)
	for _, w := range ms.Frame() {
		quiet = append(quiet, w.Move)
	}
	ms.Pop()
	return
}

// Playable returns the generated moves that do not leave the mover's king
// attacked (make / InCheck / undo), in emission order, duplicates preserved.
func Playable(ms *move.Store, b *board.Board) []move.Move {
	gen := Generated(ms, b)
	me := b.STM
	res := gen[:0:0]
	for _, m := range gen {
		r := b.MakeMove(m)
		if !b.InCheck(me) {
			res = append(res, m)
		}
		b.UndoMove(m, r)
	}
	return res
}

// Enc converts a reference move into the engine's encoding, through the engine's own constructors (the bit
// layout of move.Move is the engine's business).
func Enc(m refchess.Move) move.Move {
	return move.From(chess.Square(m.From)) | move.To(chess.Square(m.To)) | move.Promo(chess.Piece(m.Promo))
}

// Key is the reference encoding of an engine move (layout independent); 0xffff for a value that is not what
// the engine's constructors make of its own from / to / promotion fields (stray bits).
func Key(m move.Move) uint16 {
	d := Dec(m)
	if Enc(d) != m {
		return 0xffff
	}
	return d.Enc()
}

// Dec converts an engine move into a reference move.
func Dec(m move.Move) refchess.Move {
	return refchess.Move{From: int(m.From()), To: int(m.To()), Promo: int(m.Promo())}
}

// SetDiff compares two move sets given as encodings; it returns the sorted
// lists only in a and only in b, and any encoding that occurs twice in a.
func SetDiff(a []move.Move, b []uint16) (onlyA, onlyB, dupA []uint16) {
	ma := map[uint16]int{}
	for _, m := range a {
		ma[Key(m)]++
	}
	mb := map[uint16]bool{}
	for _, m := range b {
		mb[m] = true
	}
	for m, n := range ma {
		if n > 1 {
			dupA = append(dupA, m)
		}
		if !mb[m] {
			onlyA = append(onlyA, m)
		}
	}
	for m := range mb {
		if ma[m] == 0 {
			onlyB = append(onlyB, m)
		}
	}
	for _, s := range [][]uint16{onlyA, onlyB, dupA} {
		sort.Slice(s, func(i, j int) bool { return s[i] < s[j] })
	}
	return
}

// Names renders encodings in UCI notation.
func Names(ms []uint16) []string {
	res := make([]string, len(ms))
	for i, m := range ms {
		res[i] = refchess.Move{To: int(m & 63), From: int(m >> 6 & 63), Promo: int(m >> 12 & 7)}.String()
	}
	return res
}

// SameAsRef compares every rule-relevant field of b with the reference
// position p whose en-passant field is expected to follow the engine's
// convention already. It returns "" or a description of the first difference.
func SameAsRef(b *board.Board, p *refchess.Pos) string {
	got := ToRef(b)
	if got.Sq != p.Sq {
		return fmt.Sprintf("placement differs: engine %q reference %q", got.FEN(), p.FEN())
	}
	if got.White != p.White {
		return "side to move differs"
	}
	if got.Castle != p.Castle {
		return fmt.Sprintf("castling rights differ: engine %v reference %v", got.Castle, p.Castle)
	}
	if got.EP != p.EP {
		return fmt.Sprintf("en-passant target differs: engine %d reference %d", got.EP, p.EP)
	}
	if got.Half != p.Half {
		return fmt.Sprintf("halfmove clock differs: engine %d reference %d", got.Half, p.Half)
	}
	if got.Full != p.Full {
		return fmt.Sprintf("fullmove number differs: engine %d reference %d", got.Full, p.Full)
	}
	return ""
}

// Consistent checks that the three redundant placement encodings of b agree.
func Consistent(b *board.Board) string {
	var union chess.BitBoard
	for p := chess.Pawn; p <= chess.King; p++ {
		if union&b.Pieces[p] != 0 {
			return fmt.Sprintf("piece sets overlap at kind %d", p)
		}
		union |= b.Pieces[p]
	}
	// the slot of "no piece" is not a piece-type set; it may be unused (empty) or hold the vacant squares, but
	// nothing that contradicts the placement
	if np := b.Pieces[chess.NoPiece]; np != 0 && np != ^union {
		return "Pieces[NoPiece] is neither empty nor the set of vacant squares"
	}
	if b.Colors[0]&b.Colors[1] != 0 {
		return "colour sets overlap"
	}
	if union != b.Colors[0]|b.Colors[1] {
		return fmt.Sprintf("union of piece sets %x != union of colour sets %x", union, b.Colors[0]|b.Colors[1])
	}
	for sq := 0; sq < 64; sq++ {
		k := b.SquaresToPiece[sq]
		bit := chess.BitBoard(1) << sq
		if k == chess.NoPiece {
			if union&bit != 0 {
				return fmt.Sprintf("square %d empty in map but set in bitboards", sq)
			}
			continue
		}
		if k > chess.King {
			return fmt.Sprintf("square %d holds invalid kind %d", sq, k)
		}
		if b.Pieces[k]&bit == 0 {
			return fmt.Sprintf("square %d holds kind %d in map but not in its bitboard", sq, k)
		}
	}
	return ""
}
