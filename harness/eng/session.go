package eng

import (
	"bytes"
	"io"
	"strings"
	"sync"
	"time"

	"github.com/paulsonkoly/chess-3/uci"
)

// lineWriter splits what is written to it into lines and publishes them.
type lineWriter struct {
	mu     sync.Mutex
	buf    bytes.Buffer
	lines  []string
	writes []string // raw Write calls, to detect torn lines
	notify chan struct{}
}

func (w *lineWriter) Write(p []byte) (int, error) {
	w.mu.Lock()
	w.writes = append(w.writes, string(p))
	w.buf.Write(p)
	for {
		data := w.buf.Bytes()
		i := bytes.IndexByte(data, '\n')
		if i < 0 {
			break
		}
		w.lines = append(w.lines, string(data[:i]))
		w.buf.Next(i + 1)
	}
	w.mu.Unlock()
	select {
	case w.notify <- struct{}{}:
	default:
	}
	return len(p), nil
}

// Session is an interactive in-process UCI session.
type Session struct {
	in     *io.PipeWriter
	out    *lineWriter
	errw   *lineWriter
	done   chan struct{}
	cursor int
}

// NewSession starts a driver on pipes.
func NewSession(opts ...uci.DriverOpt) *Session {
	pr, pw := io.Pipe()
	s := &Session{in: pw, out: &lineWriter{notify: make(chan struct{}, 1)}, errw: &lineWriter{notify: make(chan struct{}, 1)}, done: make(chan struct{})}
	all := append([]uci.DriverOpt{uci.WithInput(pr), uci.WithOutput(s.out), uci.WithError(s.errw)}, opts...)
	d := uci.NewDriver(all...)
	go func() {
		d.Run()
		close(s.done)
	}()
	return s
}

// Send writes one command line.
func (s *Session) Send(line string) { _, _ = io.WriteString(s.in, line+"\n") }

// Lines returns a copy of all stdout lines so far.
func (s *Session) Lines() []string {
	s.out.mu.Lock()
	defer s.out.mu.Unlock()
	return append([]string(nil), s.out.lines...)
}

// Writes returns the raw Write calls made to stdout so far.
func (s *Session) Writes() []string {
	s.out.mu.Lock()
	defer s.out.mu.Unlock()
	return append([]string(nil), s.out.writes...)
}

// Partial is the unterminated tail of stdout.
func (s *Session) Partial() string {
	s.out.mu.Lock()
	defer s.out.mu.Unlock()
	return s.out.buf.String()
}

// Stderr returns everything written to stderr so far.
func (s *Session) Stderr() string {
	s.errw.mu.Lock()
	defer s.errw.mu.Unlock()
	return strings.Join(s.errw.lines, "\n") + s.errw.buf.String()
}

// Wait blocks until a not yet consumed stdout line with the given prefix
// appears (consuming everything up to it) or the timeout passes.
func (s *Session) Wait(prefix string, timeout time.Duration) (string, bool) {
	deadline := time.NewTimer(timeout)
	defer deadline.Stop()
	for {
		s.out.mu.Lock()
		for s.cursor < len(s.out.lines) {
			l := s.out.lines[s.cursor]
			s.cursor++
			if strings.HasPrefix(l, prefix) {
				s.out.mu.Unlock()
				return l, true
			}
		}
		s.out.mu.Unlock()
		select {
		case <-s.out.notify:
		case <-s.done:
			// drain once more
			s.out.mu.Lock()
			for s.cursor < len(s.out.lines) {
				l := s.out.lines[s.cursor]
				s.cursor++
				if strings.HasPrefix(l, prefix) {
					s.out.mu.Unlock()
					return l, true
				}
			}
			s.out.mu.Unlock()
			return "", false
		case <-deadline.C:
			return "", false
		}
	}
}

// Sync sends isready and waits for readyok: everything sent before has been processed.
func (s *Session) Sync(timeout time.Duration) bool {
	s.Send("isready")
	_, ok := s.Wait("readyok", timeout)
	return ok
}

// Quit sends quit and waits for the driver to return.
func (s *Session) Quit(timeout time.Duration) bool {
	s.Send("quit")
	return s.WaitDone(timeout)
}

// EOF closes stdin and waits for the driver to return.
func (s *Session) EOF(timeout time.Duration) bool {
	s.in.Close()
	return s.WaitDone(timeout)
}

// WaitDone waits for Run to return.
func (s *Session) WaitDone(timeout time.Duration) bool {
	select {
	case <-s.done:
		s.in.Close()
		return true
	case <-time.After(timeout):
		return false
	}
}

// Done reports whether Run has returned.
func (s *Session) Done() bool {
	select {
	case <-s.done:
		return true
	default:
		return false
	}
}

// Ask sends the command and waits for a line with the prefix.
func (s *Session) Ask(cmd, prefix string, timeout time.Duration) (string, bool) {
	s.Send(cmd)
	return s.Wait(prefix, timeout)
}
