package eng

import (
	"bytes"
	"io"
	"strings"
	"sync"

	"github.com/paulsonkoly/chess-3/uci"
)

var stdoutMu sync.Mutex

// UCI runs a whole scripted session through an in-process driver (real search
// unless opts replace it) and returns everything written to its stdout and stderr.
// "quit" is appended.
func UCI(lines []string, opts ...uci.DriverOpt) (stdout, stderr string) {
	var out, errb bytes.Buffer
	in := strings.NewReader(strings.Join(lines, "\n") + "\nquit\n")
	all := append([]uci.DriverOpt{uci.WithInput(in), uci.WithOutput(&out), uci.WithError(&errb)}, opts...)
	uci.NewDriver(all...).Run()
	return out.String(), errb.String()
}

// Discard is io.Discard (saves an import at call sites).
var Discard = io.Discard

// LastLine is the last non-empty line of s.
func LastLine(s string) string {
	ls := strings.Split(strings.TrimSpace(s), "\n")
	return strings.TrimSpace(ls[len(ls)-1])
}
