package eng

import (
	"bytes"
	"io"
	"strconv"
	"strings"
	"sync"

	"github.com/paulsonkoly/chess-3/uci"
)

var stdoutMu sync.Mutex

// UCI runs a whole scripted session through an in-process driver (real search
// unless opts replace it) and returns everything written to its stdout and stderr.
// "quit" is appended.
func UCI(lines []string, opts ...uci.DriverOpt) (stdout, stderr string) {
	var out, errb bytes.Buffer
	in := strings.NewReader(strings.Join(lines, "\n") + "\nquit\n")
	all := append([]uci.DriverOpt{uci.WithInput(in), uci.WithOutput(&out), uci.WithError(&errb)}, opts...)
	uci.NewDriver(all...).Run()
	return out.String(), errb.String()
}

// Discard is io.Discard (saves an import at call sites).
var Discard = io.Discard

// LastLine is the last non-empty line of s.
func LastLine(s string) string {
	ls := strings.Split(strings.TrimSpace(s), "\n")
	return strings.TrimSpace(ls[len(ls)-1])
}

// FENLines picks the answers of `fen` commands out of a driver's stdout: the lines
// whose first field is a board description (eight ranks) followed by at least the
// side to move. Anything else the driver chooses to say in between (`info string`
// diagnostics for a rejected command, for instance) is not part of any listed
// property and is skipped.
func FENLines(out string) []string {
	var r []string
	for _, l := range strings.Split(out, "\n") {
		l = strings.TrimSpace(l)
		f := strings.Fields(l)
		if len(f) >= 2 && strings.Count(f[0], "/") == 7 && (f[1] == "w" || f[1] == "b") {
			r = append(r, l)
		}
	}
	return r
}

// LastFEN is the last `fen` answer in out ("" when there is none).
func LastFEN(out string) string {
	ls := FENLines(out)
	if len(ls) == 0 {
		return ""
	}
	return ls[len(ls)-1]
}

// LastScore finds the answer of an `eval` command in out: the last line that is a
// number, optionally behind "cp" (other lines, e.g. `info string` remarks, are skipped).
func LastScore(out string) (int, bool) {
	ls := strings.Split(out, "\n")
	for i := len(ls) - 1; i >= 0; i-- {
		f := strings.Fields(ls[i])
		if len(f) == 0 || f[0] == "info" {
			continue
		}
		if len(f) == 2 && f[0] == "cp" {
			f = f[1:]
		}
		if len(f) == 1 {
			if n, err := strconv.Atoi(f[0]); err == nil {
				return n, true
			}
		}
	}
	return 0, false
}
