// Package evid collects what a check run actually covered (case counts, class
// histogram, distinct non-trivial cases, literal samples, violations, known
// findings) and writes it as a fragment the driver merges into
// /verif/evidence/<ID>.json.
package evid

import (
	"bufio"
	"encoding/binary"
	"encoding/json"
	"flag"
	"fmt"
	"hash/fnv"
	"os"
	"path/filepath"
	"sort"
	"strconv"
	"strings"
	"sync"
	"testing"
)

// Violation is one failing case with the path of its replay file.
type Violation struct {
	Check  string `json:"check"`
	Msg    string `json:"msg"`
	Replay string `json:"replay"`
}

// Known is one occurrence class of a known finding.
type Known struct {
	Key   string `json:"key"`
	Msg   string `json:"msg"`
	Count int64  `json:"count"`
}

// Fragment is what one shard writes.
type Fragment struct {
	Prop        string           `json:"prop"`
	Shard       int              `json:"shard"`
	Evals       int64            `json:"evals"`
	Classes     map[string]int64 `json:"classes"`
	NTCount     int              `json:"nt_count"`
	NTCapped    bool             `json:"nt_capped"`
	Samples     []any            `json:"samples"`
	Violations  []Violation      `json:"violations"`
	Known       []Known          `json:"known"`
	Exhaustive  []string         `json:"exhaustive"`
	Assumptions []string         `json:"assumptions"`
	Rule        string           `json:"rule"`
	Notes       []string         `json:"notes"`
	Complete    bool             `json:"complete"`
	FullyExh    bool             `json:"fully_exhaustive"`
}

// Rec is the recorder of one shard.
type Rec struct {
	mu        sync.Mutex
	frag      Fragment
	nt        map[uint64]struct{}
	ntCap     int
	perClass  map[string]int
	known     map[string]*Known
	lastFail  *pendingFail
	failCount int
}

type pendingFail struct {
	check string
	msg   string
	c     any
}

// ReplayFile is the on-disk form of a failing case.
type ReplayFile struct {
	Property string          `json:"property"`
	Check    string          `json:"check"`
	Msg      string          `json:"msg"`
	Case     json.RawMessage `json:"case"`
}

// Tier is "quick" or "thorough".
func Tier() string {
	if os.Getenv("VERIF_TIER") == "thorough" {
		return "thorough"
	}
	return "quick"
}

// Thorough reports whether the thorough tier runs.
func Thorough() bool { return Tier() == "thorough" }

// Pick returns q in the quick tier and t in the thorough tier.
func Pick(q, t int) int {
	if Thorough() {
		return t
	}
	return q
}

// Shard returns this process' shard index and the shard count.
func Shard() (int, int) {
	i, _ := strconv.Atoi(os.Getenv("VERIF_SHARD"))
	n, _ := strconv.Atoi(os.Getenv("VERIF_NSHARDS"))
	if n < 1 {
		n = 1
	}
	if i < 0 || i >= n {
		i = 0
	}
	return i, n
}

// Seed is the base seed (VERIF_SEED, 0 remapped to 1) mixed with the shard index.
func Seed() uint64 {
	s, _ := strconv.ParseUint(os.Getenv("VERIF_SEED"), 10, 64)
	if s == 0 {
		s = 1
	}
	i, _ := Shard()
	return s*1000 + uint64(i) + 1
}

// SetRapid sets rapid's flags for the next rapid.Check call: checks is the
// total across shards (split evenly), salt varies the seed between sub-checks.
func SetRapid(totalChecks int, salt uint64) int {
	_, n := Shard()
	per := (totalChecks + n - 1) / n
	if per < 1 {
		per = 1
	}
	_ = flag.Set("rapid.checks", strconv.Itoa(per))
	_ = flag.Set("rapid.seed", strconv.FormatUint(Seed()+salt*1_000_003, 10))
	_ = flag.Set("rapid.nofailfile", "true")
	shrink := "12s"
	if os.Getenv("VERIF_SHRINKTIME") != "" {
		shrink = os.Getenv("VERIF_SHRINKTIME")
	}
	_ = flag.Set("rapid.shrinktime", shrink)
	return per
}

// Open creates the recorder for prop.
func Open(prop string) *Rec {
	i, _ := Shard()
	return &Rec{
		frag:     Fragment{Prop: prop, Shard: i, Classes: map[string]int64{}},
		nt:       map[uint64]struct{}{},
		ntCap:    2_000_000,
		perClass: map[string]int{},
		known:    map[string]*Known{},
	}
}

// Eval counts n generated cases.
func (r *Rec) Eval(n int) {
	r.mu.Lock()
	r.frag.Evals += int64(n)
	r.mu.Unlock()
}

// Class counts one occurrence of a case class.
func (r *Rec) Class(label string) {
	r.mu.Lock()
	r.frag.Classes[label]++
	r.mu.Unlock()
}

// ClassN counts n occurrences of a case class.
func (r *Rec) ClassN(label string, n int) {
	r.mu.Lock()
	r.frag.Classes[label] += int64(n)
	r.mu.Unlock()
}

// NT records a non-trivial case identified by h.
func (r *Rec) NT(h uint64) {
	r.mu.Lock()
	if len(r.nt) < r.ntCap {
		r.nt[h] = struct{}{}
	} else {
		r.frag.NTCapped = true
	}
	r.mu.Unlock()
}

// Sample keeps v as a literal sample, at most two per class and 16 in total.
func (r *Rec) Sample(class string, v any) {
	r.mu.Lock()
	defer r.mu.Unlock()
	if r.perClass[class] >= 2 || len(r.frag.Samples) >= 16 {
		return
	}
	r.perClass[class]++
	r.frag.Samples = append(r.frag.Samples, map[string]any{"class": class, "case": v})
}

// WantSample reports whether Sample(class, ...) would keep a value (lets callers avoid formatting).
func (r *Rec) WantSample(class string) bool {
	r.mu.Lock()
	defer r.mu.Unlock()
	return r.perClass[class] < 2 && len(r.frag.Samples) < 16
}

// Exhaustive notes that the named finite space was enumerated completely by this run.
func (r *Rec) Exhaustive(what string) {
	r.mu.Lock()
	r.frag.Exhaustive = append(r.frag.Exhaustive, what)
	r.mu.Unlock()
}

// FullyExhaustive states that everything this check explores is a complete enumeration of a finite
// space (no sampled part); only then the evidence file says exhaustive: true.
func (r *Rec) FullyExhaustive() {
	r.mu.Lock()
	r.frag.FullyExh = true
	r.mu.Unlock()
}

// Assume records an assumption / trusted base entry.
func (r *Rec) Assume(s string) {
	r.mu.Lock()
	r.frag.Assumptions = append(r.frag.Assumptions, s)
	r.mu.Unlock()
}

// Rule sets the generation / non-triviality rule text.
func (r *Rec) Rule(s string) {
	r.mu.Lock()
	r.frag.Rule = s
	r.mu.Unlock()
}

// Note adds a free text note.
func (r *Rec) Note(format string, args ...any) {
	r.mu.Lock()
	r.frag.Notes = append(r.frag.Notes, fmt.Sprintf(format, args...))
	r.mu.Unlock()
}

// Fail remembers a failing case. Inside a rapid property the caller follows up
// with t.Fatalf; because rapid re-runs the shrunk case last, the last
// remembered case is the minimal one, which Commit turns into the replay file.
func (r *Rec) Fail(check, msg string, c any) {
	r.mu.Lock()
	r.lastFail = &pendingFail{check, msg, c}
	r.failCount++
	r.mu.Unlock()
}

// Commit writes the pending failing case (if any) as a replay file and records the violation.
func (r *Rec) Commit() {
	r.mu.Lock()
	pf := r.lastFail
	r.lastFail = nil
	r.mu.Unlock()
	if pf == nil {
		return
	}
	r.Violate(pf.check, pf.msg, pf.c)
}

// Violate records a violation immediately, writing the replay file.
func (r *Rec) Violate(check, msg string, c any) {
	raw, err := json.Marshal(c)
	if err != nil {
		raw, _ = json.Marshal(fmt.Sprintf("%+v", c))
	}
	rf := ReplayFile{Property: r.frag.Prop, Check: check, Msg: msg, Case: raw}
	data, _ := json.MarshalIndent(rf, "", " ")
	dir := os.Getenv("VERIF_REPLAY_DIR")
	if dir == "" {
		dir = os.TempDir()
	}
	_ = os.MkdirAll(dir, 0o755)
	h := fnv.New64a()
	h.Write(data)
	name := filepath.Join(dir, fmt.Sprintf("%s-%s-%016x.json", r.frag.Prop, sanitize(check), h.Sum64()))
	_ = os.WriteFile(name, data, 0o644)
	r.mu.Lock()
	r.frag.Violations = append(r.frag.Violations, Violation{check, msg, name})
	r.mu.Unlock()
}

func sanitize(s string) string {
	var sb strings.Builder
	for _, ch := range s {
		if ch >= 'a' && ch <= 'z' || ch >= 'A' && ch <= 'Z' || ch >= '0' && ch <= '9' || ch == '_' {
			sb.WriteRune(ch)
		} else {
			sb.WriteByte('_')
		}
	}
	return sb.String()
}

// Violations is the number of violations recorded so far.
func (r *Rec) Violations() int {
	r.mu.Lock()
	defer r.mu.Unlock()
	return len(r.frag.Violations)
}

var knownOnce sync.Once
var knownOpen map[string]bool

func loadKnown() {
	knownOpen = map[string]bool{}
	path := os.Getenv("VERIF_KNOWN")
	if path == "" {
		path = "/verif/KNOWN_FINDINGS.txt"
	}
	f, err := os.Open(path)
	if err != nil {
		return
	}
	defer f.Close()
	sc := bufio.NewScanner(f)
	for sc.Scan() {
		line := strings.TrimSpace(sc.Text())
		if !strings.HasPrefix(line, "open:") {
			continue
		}
		var prop, key string
		for _, f := range strings.Fields(line) {
			if strings.HasPrefix(f, "property=") {
				prop = strings.TrimPrefix(f, "property=")
			}
			if strings.HasPrefix(f, "key=") {
				key = strings.TrimPrefix(f, "key=")
			}
		}
		if prop != "" && key != "" {
			knownOpen[prop+"/"+key] = true
		}
	}
}

// IsKnownOpen reports whether the known-findings file lists key as an open finding of this property.
func (r *Rec) IsKnownOpen(key string) bool {
	knownOnce.Do(loadKnown)
	return knownOpen[r.frag.Prop+"/"+key]
}

// KnownHit records an occurrence of the open known finding key.
func (r *Rec) KnownHit(key, msg string) {
	r.mu.Lock()
	k := r.known[key]
	if k == nil {
		k = &Known{Key: key, Msg: msg}
		r.known[key] = k
	}
	k.Count++
	r.mu.Unlock()
}

// Close writes the fragment (and the set of non-trivial hashes) for the driver.
func (r *Rec) Close(complete bool) {
	r.Commit()
	r.mu.Lock()
	defer r.mu.Unlock()
	r.frag.Complete = complete
	r.frag.NTCount = len(r.nt)
	keys := make([]string, 0, len(r.known))
	for k := range r.known {
		keys = append(keys, k)
	}
	sort.Strings(keys)
	r.frag.Known = nil
	for _, k := range keys {
		r.frag.Known = append(r.frag.Known, *r.known[k])
	}
	path := os.Getenv("VERIF_FRAG")
	if path == "" {
		return
	}
	data, _ := json.Marshal(r.frag)
	_ = os.WriteFile(path, data, 0o644)
	f, err := os.Create(path + ".nt")
	if err != nil {
		return
	}
	w := bufio.NewWriter(f)
	var b [8]byte
	for h := range r.nt {
		binary.LittleEndian.PutUint64(b[:], h)
		w.Write(b[:])
	}
	w.Flush()
	f.Close()
}

// H hashes its arguments' %v forms into a 64 bit case identity.
func H(parts ...any) uint64 {
	h := fnv.New64a()
	for _, p := range parts {
		fmt.Fprintf(h, "%v|", p)
	}
	return h.Sum64()
}

// HS hashes a string.
func HS(s string) uint64 {
	h := fnv.New64a()
	h.Write([]byte(s))
	return h.Sum64()
}

// ReplayPath is the replay file to re-execute, or "".
func ReplayPath() string { return os.Getenv("VERIF_REPLAY") }

// LoadReplay reads the replay file named by VERIF_REPLAY.
func LoadReplay() (*ReplayFile, error) {
	data, err := os.ReadFile(ReplayPath())
	if err != nil {
		return nil, err
	}
	var rf ReplayFile
	if err := json.Unmarshal(data, &rf); err != nil {
		return nil, err
	}
	return &rf, nil
}

// Main is the common skeleton of a check: replay mode or run(rec).
//   - run explores and records violations through rec;
//   - replay re-executes one saved case and returns an error if it still fails.
func Main(t *testing.T, prop string, run func(r *Rec), replay func(check string, raw json.RawMessage) error) {
	if ReplayPath() != "" {
		rf, err := LoadReplay()
		if err != nil {
			fmt.Printf("REPLAY-ERROR %v\n", err)
			os.Exit(2)
		}
		if err := replay(rf.Check, rf.Case); err != nil {
			fmt.Printf("REPLAY-FAIL property=%s check=%s: %v\n", prop, rf.Check, err)
			t.Fail()
			return
		}
		fmt.Printf("REPLAY-PASS property=%s check=%s\n", prop, rf.Check)
		return
	}
	rec := Open(prop)
	done := false
	defer func() {
		// a rapid failure ends the test with FailNow (runtime.Goexit): still flush
		rec.Close(done)
		if rec.Violations() > 0 {
			t.Fail()
		}
	}()
	run(rec)
	done = true
}

// Sub runs f as a subtest and commits a failing case it may have remembered.
func (r *Rec) Sub(t *testing.T, name string, f func(t *testing.T)) {
	t.Run(name, f)
	r.Commit()
}

// Current notes the case about to be executed, so that a crash of the whole
// process (a panic in a goroutine of the code under test) still leaves a replay file.
func (r *Rec) Current(check string, c any) {
	path := os.Getenv("VERIF_FRAG")
	if path == "" {
		return
	}
	raw, err := json.Marshal(c)
	if err != nil {
		return
	}
	data, _ := json.Marshal(ReplayFile{Property: r.frag.Prop, Check: check, Msg: "process crashed while this case was running", Case: raw})
	_ = os.WriteFile(path+".cur", data, 0o644)
}
