package evid

import (
	"testing"

	"pgregory.net/rapid"
)

// Rapid runs prop as a rapid property in a subtest called name with total
// checks split across shards, then turns a remembered (shrunk) failure into a
// violation with a replay file.
func (r *Rec) Rapid(t *testing.T, name string, total int, prop func(t *rapid.T)) {
	SetRapid(total, HS(name)%100000)
	t.Run(name, func(t *testing.T) { rapid.Check(t, prop) })
	r.mu.Lock()
	pending := r.lastFail != nil
	r.mu.Unlock()
	if t.Failed() && !pending && r.Violations() == 0 {
		// rapid failed without the property having called Fail (panic inside the code under test, generator trouble)
		r.Violate(name, "the testing package reported a failure without a failing case: a panic inside the code under test or a data race report (race detector on); see the shard log", map[string]any{"sub": name, "seed": Seed()})
	}
	r.Commit()
}
