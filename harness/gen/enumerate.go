package gen

import "verif/refchess"

// Enumerate visits every valid placement of the given non-king pieces (codes, signed) plus both kings, both sides to move.
// slice/of restrict the enumeration to white king squares wk with wk % of == slice.
func Enumerate(pieces []int8, slice, of int, visit func(p *refchess.Pos) bool) bool {
	var p refchess.Pos
	p.EP, p.Full = -1, 1
	var rec func(i int) bool
	rec = func(i int) bool {
		if i == len(pieces) {
			for _, w := range []bool{true, false} {
				p.White = w
				if p.Valid() == nil {
					if !visit(&p) {
						return false
					}
				}
			}
			return true
		}
		lo, hi := 0, 63
		if pieces[i] == refchess.Pawn || pieces[i] == -refchess.Pawn {
			lo, hi = 8, 55
		}
		for sq := lo; sq <= hi; sq++ {
			if p.Sq[sq] != 0 {
				continue
			}
			// identical pieces: enforce ascending squares to avoid duplicates
			if i > 0 && pieces[i] == pieces[i-1] {
				dup := false
				for s2 := sq + 1; s2 <= 63; s2++ {
					if p.Sq[s2] == pieces[i] {
						dup = true
					}
				}
				if dup {
					continue
				}
			}
			p.Sq[sq] = pieces[i]
			ok := rec(i + 1)
			p.Sq[sq] = 0
			if !ok {
				return false
			}
		}
		return true
	}
	for wk := 0; wk < 64; wk++ {
		if wk%of != slice {
			continue
		}
		p.Sq[wk] = refchess.King
		for bk := 0; bk < 64; bk++ {
			if bk == wk {
				continue
			}
			df, dr := wk%8-bk%8, wk/8-bk/8
			if df >= -1 && df <= 1 && dr >= -1 && dr <= 1 {
				continue
			}
			p.Sq[bk] = -refchess.King
			ok := rec(0)
			p.Sq[bk] = 0
			if !ok {
				p.Sq[wk] = 0
				return false
			}
		}
		p.Sq[wk] = 0
	}
	return true
}

// CastleTable visits every valid position with white king and rooks at home (rights as given by
// which rooks are present), a black king and one or two black pieces drawn from kinds anywhere:
// the complete space in which castling legality is decided by one or two attackers / blockers.
// White is to move. slice/of split the enumeration by the black king square.
func CastleTable(kinds []int8, two bool, slice, of int, visit func(p *refchess.Pos) bool) bool {
	for rooks := 1; rooks <= 3; rooks++ {
		for bk := 0; bk < 64; bk++ {
			if bk%of != slice {
				continue
			}
			var p refchess.Pos
			p.EP, p.Full, p.White = -1, 1, true
			p.Sq[4] = refchess.King
			if rooks&1 != 0 {
				p.Sq[7] = refchess.Rook
				p.Castle[refchess.WK] = true
			}
			if rooks&2 != 0 {
				p.Sq[0] = refchess.Rook
				p.Castle[refchess.WQ] = true
			}
			if p.Sq[bk] != 0 {
				continue
			}
			p.Sq[bk] = -refchess.King
			for _, k1 := range kinds {
				for s1 := 0; s1 < 64; s1++ {
					if p.Sq[s1] != 0 {
						continue
					}
					p.Sq[s1] = k1
					if !two {
						if p.Valid() == nil && !visit(&p) {
							return false
						}
					} else {
						for _, k2 := range kinds {
							for s2 := s1 + 1; s2 < 64; s2++ {
								if p.Sq[s2] != 0 {
									continue
								}
								p.Sq[s2] = k2
								if p.Valid() == nil && !visit(&p) {
									return false
								}
								p.Sq[s2] = 0
							}
						}
					}
					p.Sq[s1] = 0
				}
			}
		}
	}
	return true
}

// EPTable visits every valid parent position of the shape: white pawn on its 2nd rank (file f),
// one or two black pawns beside its 4th-rank square, both kings anywhere and one extra line piece
// (white or black bishop, rook or queen) anywhere; white to move, the double push f2-f4 legal.
// These are the positions in which the en-passant decision depends on pins and discovered checks.
// slice/of split by the white king square.
func EPTable(slice, of int, visit func(parent *refchess.Pos, push refchess.Move) bool) bool {
	for f := 0; f < 8; f++ {
		for shape := 1; shape <= 3; shape++ { // bit 0: left neighbour, bit 1: right neighbour
			if (shape&1 != 0 && f == 0) || (shape&2 != 0 && f == 7) {
				continue
			}
			for wk := 0; wk < 64; wk++ {
				if wk%of != slice {
					continue
				}
				for bk := 0; bk < 64; bk++ {
					for _, x := range []int8{refchess.Bishop, refchess.Rook, refchess.Queen, -refchess.Bishop, -refchess.Rook, -refchess.Queen} {
						for xs := 0; xs < 64; xs++ {
							var p refchess.Pos
							p.EP, p.Full, p.White = -1, 1, true
							p.Sq[8+f] = refchess.Pawn
							if shape&1 != 0 {
								p.Sq[24+f-1] = -refchess.Pawn
							}
							if shape&2 != 0 {
								p.Sq[24+f+1] = -refchess.Pawn
							}
							if p.Sq[wk] != 0 || wk == 16+f || wk == 24+f {
								continue
							}
							p.Sq[wk] = refchess.King
							if p.Sq[bk] != 0 || bk == 16+f || bk == 24+f {
								continue
							}
							p.Sq[bk] = -refchess.King
							if p.Sq[xs] != 0 || xs == 16+f || xs == 24+f {
								continue
							}
							p.Sq[xs] = x
							if p.Valid() != nil {
								continue
							}
							m := refchess.Move{From: 8 + f, To: 24 + f}
							n := p.Make(m)
							if n.InCheck(true) { // the push itself must be legal
								continue
							}
							if !visit(&p, m) {
								return false
							}
						}
					}
				}
			}
		}
	}
	return true
}
