// Package gen holds the rapid generators for positions, moves and histories.
// Every random choice goes through rapid so that cases shrink and replay.
package gen

import (
	"pgregory.net/rapid"

	"verif/refchess"
)

const (
	P = refchess.Pawn
	N = refchess.Knight
	B = refchess.Bishop
	R = refchess.Rook
	Q = refchess.Queen
	K = refchess.King
)

// StartFEN is the initial position.
const StartFEN = "rnbqkbnr/pppppppp/8/8/8/8/PPPPPPPP/RNBQKBNR w KQkq - 0 1"

func draw(t *rapid.T, lo, hi int, label string) int {
	if hi <= lo {
		return lo
	}
	return rapid.IntRange(lo, hi).Draw(t, label)
}

func chance(t *rapid.T, num, den int, label string) bool {
	return rapid.IntRange(0, den-1).Draw(t, label) < num
}

// material draws a piece multiset (without king) for one side that respects the promotion bound.
func material(t *rapid.T, style int) []int8 {
	var res []int8
	var pawns, n, b, r, q int
	switch style {
	case 0: // sparse endgame
		pawns = draw(t, 0, 3, "pawns")
		n, b, r, q = draw(t, 0, 1, "n"), draw(t, 0, 1, "b"), draw(t, 0, 1, "r"), draw(t, 0, 1, "q")
		if draw(t, 0, 2, "bare") == 0 {
			n, b, r, q = 0, 0, 0, 0
		}
	case 1: // middlegame like
		pawns = draw(t, 2, 8, "pawns")
		n, b, r, q = draw(t, 0, 2, "n"), draw(t, 0, 2, "b"), draw(t, 0, 2, "r"), draw(t, 0, 1, "q")
	case 2: // promoted material, heavy
		pawns = draw(t, 0, 6, "pawns")
		budget := 8 - pawns
		n, b, r, q = draw(t, 0, 2, "n"), draw(t, 0, 2, "b"), draw(t, 0, 2, "r"), draw(t, 0, 1, "q")
		for budget > 0 {
			switch draw(t, 0, 5, "promoKind") {
			case 0:
				n++
			case 1:
				b++
			case 2:
				r++
			default:
				q++
			}
			budget--
			if chance(t, 1, 4, "stopPromo") {
				break
			}
		}
	default: // minor piece endings (insufficient material / KNB classes)
		pawns = 0
		n, b = draw(t, 0, 2, "n"), draw(t, 0, 2, "b")
	}
	for i := 0; i < pawns; i++ {
		res = append(res, P)
	}
	for i := 0; i < n; i++ {
		res = append(res, N)
	}
	for i := 0; i < b; i++ {
		res = append(res, B)
	}
	for i := 0; i < r; i++ {
		res = append(res, R)
	}
	for i := 0; i < q; i++ {
		res = append(res, Q)
	}
	return res
}

func adjacent(a, b int) bool {
	df, dr := a%8-b%8, a/8-b/8
	if df < 0 {
		df = -df
	}
	if dr < 0 {
		dr = -dr
	}
	return df <= 1 && dr <= 1
}

// place puts code c on a drawn empty square (pawns on ranks 2..7 only). Returns false if no square is free.
func place(t *rapid.T, p *refchess.Pos, c int8) bool {
	lo, hi := 0, 63
	if c == P || c == -P {
		lo, hi = 8, 55
	}
	// up to a few attempts by direct draw, then linear probe: construction, no rejection
	sq := draw(t, lo, hi, "sq")
	for i := 0; i <= hi-lo; i++ {
		s := lo + (sq-lo+i)%(hi-lo+1)
		if p.Sq[s] == 0 {
			p.Sq[s] = c
			return true
		}
	}
	return false
}

// finish decides side to move, rights and clocks for a placement; ok=false if both kings are attacked.
func finish(t *rapid.T, p *refchess.Pos) bool {
	w, b := p.InCheck(true), p.InCheck(false)
	switch {
	case w && b:
		return false
	case w:
		p.White = true
	case b:
		p.White = false
	default:
		p.White = chance(t, 1, 2, "stm")
	}
	p.Castle = [4]bool{}
	if p.Sq[4] == K {
		if p.Sq[7] == R {
			p.Castle[refchess.WK] = chance(t, 2, 3, "K")
		}
		if p.Sq[0] == R {
			p.Castle[refchess.WQ] = chance(t, 2, 3, "Q")
		}
	}
	if p.Sq[60] == -K {
		if p.Sq[63] == -R {
			p.Castle[refchess.BK] = chance(t, 2, 3, "k")
		}
		if p.Sq[56] == -R {
			p.Castle[refchess.BQ] = chance(t, 2, 3, "q")
		}
	}
	p.EP = -1
	switch draw(t, 0, 5, "clockStyle") {
	case 0:
		p.Half = draw(t, 0, 100, "half")
	case 1:
		p.Half = draw(t, 90, 100, "half")
	default:
		p.Half = draw(t, 0, 12, "half")
	}
	p.Full = draw(t, 1, 300, "full")
	return true
}

// Synthetic draws a valid position by direct placement (no en-passant target).
func Synthetic(t *rapid.T) refchess.Pos {
	for attempt := 0; attempt < 8; attempt++ {
		var p refchess.Pos
		style := draw(t, 0, 3, "style")
		if chance(t, 1, 3, "homeKings") { // kings (and often rooks) at home so that castling occurs
			p.Sq[4], p.Sq[60] = K, -K
			for _, sq := range []int{0, 7} {
				if chance(t, 2, 3, "homeRookW") {
					p.Sq[sq] = R
				}
			}
			for _, sq := range []int{56, 63} {
				if chance(t, 2, 3, "homeRookB") {
					p.Sq[sq] = -R
				}
			}
		} else {
			wk := draw(t, 0, 63, "wk")
			p.Sq[wk] = K
			bk := draw(t, 0, 63, "bk")
			for i := 0; i < 64; i++ {
				s := (bk + i) % 64
				if p.Sq[s] == 0 && !adjacent(s, wk) {
					p.Sq[s] = -K
					break
				}
			}
		}
		for _, c := range material(t, style) {
			if c == R && p.Sq[0] == R && p.Sq[7] == R {
				continue
			}
			place(t, &p, c)
		}
		style2 := style
		if chance(t, 1, 4, "asym") {
			style2 = draw(t, 0, 3, "style2")
		}
		for _, c := range material(t, style2) {
			if c == R && p.Sq[56] == -R && p.Sq[63] == -R {
				continue
			}
			place(t, &p, -c)
		}
		// home rooks count against the material bound: repair by validity check
		if !finish(t, &p) {
			continue
		}
		if p.Valid() == nil {
			return p
		}
	}
	return refchess.MustFEN(StartFEN)
}

// Policy selects how playout moves are picked.
type Policy int

const (
	Uniform Policy = iota
	PreferCapture
	PreferCheck
	PreferSpecial // promotion, castle, double push, en passant
	Shuffle       // reverse own previous move when possible, else quiet piece moves
	numPolicies
)

// PickMove picks one of the legal moves following pol. prev2 is the move the same side played two plies ago (zero if none).
func PickMove(t *rapid.T, p *refchess.Pos, legal []refchess.Move, pol Policy, prev2 refchess.Move) refchess.Move {
	var pref []refchess.Move
	switch pol {
	case PreferCapture:
		for _, m := range legal {
			if p.IsCapture(m) {
				pref = append(pref, m)
			}
		}
	case PreferCheck:
		for _, m := range legal {
			n := p.Make(m)
			if n.InCheck(n.White) {
				pref = append(pref, m)
			}
		}
	case PreferSpecial:
		for _, m := range legal {
			k := p.Sq[m.From]
			if k < 0 {
				k = -k
			}
			if m.Promo != 0 || p.IsCastle(m) || p.IsEP(m) || (k == P && (m.To-m.From == 16 || m.From-m.To == 16)) {
				pref = append(pref, m)
			}
		}
	case Shuffle:
		back := refchess.Move{From: prev2.To, To: prev2.From}
		if prev2 != (refchess.Move{}) {
			for _, m := range legal {
				if m == back {
					pref = append(pref, m)
				}
			}
		}
		if len(pref) == 0 {
			for _, m := range legal {
				k := p.Sq[m.From]
				if k < 0 {
					k = -k
				}
				if k != P && !p.IsCapture(m) && !p.IsCastle(m) {
					pref = append(pref, m)
				}
			}
		}
	}
	if len(pref) > 0 && chance(t, 4, 5, "usePref") {
		return pref[draw(t, 0, len(pref)-1, "pm")]
	}
	return legal[draw(t, 0, len(legal)-1, "m")]
}

// Playout plays up to maxPlies legal moves from p, calling visit before each
// move with the position and the chosen move (visit may stop the playout by
// returning false). It stops at positions without legal moves. It returns the
// final position.
func Playout(t *rapid.T, p refchess.Pos, maxPlies int, visit func(ply int, p *refchess.Pos, legal []refchess.Move, m refchess.Move) bool) refchess.Pos {
	plies := draw(t, 0, maxPlies, "plies")
	pol := Policy(draw(t, 0, int(numPolicies)-1, "policy"))
	var hist [2]refchess.Move
	for ply := 0; ply < plies; ply++ {
		legal := p.Legal()
		if len(legal) == 0 || p.Half >= 100 { // the listed domain ends where the halfmove clock reaches 100
			break
		}
		if chance(t, 1, 8, "switchPolicy") {
			pol = Policy(draw(t, 0, int(numPolicies)-1, "policy"))
		}
		m := PickMove(t, &p, legal, pol, hist[ply%2])
		if visit != nil && !visit(ply, &p, legal, m) {
			break
		}
		hist[ply%2] = m
		p = p.Make(m)
	}
	return p
}

// LongShuffle plays between lo and hi plies that are reversible whenever possible (no pawn
// moves, no captures), so that the halfmove clock and the history grow beyond 100 / 128.
// It does not stop at a halfmove clock of 100.
func LongShuffle(t *rapid.T, p refchess.Pos, lo, hi int) ([]refchess.Move, refchess.Pos) {
	n := draw(t, lo, hi, "longPlies")
	var ms []refchess.Move
	var hist [2]refchess.Move
	for i := 0; i < n; i++ {
		legal := p.Legal()
		if len(legal) == 0 {
			break
		}
		var quiet []refchess.Move
		for _, m := range legal {
			k := p.Sq[m.From]
			if k < 0 {
				k = -k
			}
			if k != P && !p.IsCapture(m) {
				quiet = append(quiet, m)
			}
		}
		var m refchess.Move
		switch {
		case len(quiet) > 0 && !chance(t, 1, 60, "irreversible"):
			back := refchess.Move{From: hist[i%2].To, To: hist[i%2].From}
			m = quiet[draw(t, 0, len(quiet)-1, "qm")]
			if hist[i%2] != (refchess.Move{}) && chance(t, 1, 2, "back") {
				for _, q := range quiet {
					if q == back {
						m = q
					}
				}
			}
		default:
			m = legal[draw(t, 0, len(legal)-1, "m")]
		}
		hist[i%2] = m
		ms = append(ms, m)
		p = p.Make(m)
	}
	return ms, p
}

// Extreme draws a valid position with as much material as promotion allows on one side (up to nine
// queens, ten rooks / bishops / knights) against a bare or nearly bare king: evaluations at and
// beyond the edge of the score range, long sliding lines, many attackers per square.
func Extreme(t *rapid.T) refchess.Pos {
	for attempt := 0; attempt < 8; attempt++ {
		var p refchess.Pos
		p.EP = -1
		side := int8(1)
		if chance(t, 1, 2, "side") {
			side = -1
		}
		wk := draw(t, 0, 63, "k1")
		p.Sq[wk] = side * K
		bk := draw(t, 0, 63, "k2")
		for i := 0; i < 64; i++ {
			s := (bk + i) % 64
			if p.Sq[s] == 0 && !adjacent(s, wk) {
				p.Sq[s] = -side * K
				break
			}
		}
		promoted := draw(t, 5, 8, "promoted")
		kind := int8(Q)
		if chance(t, 1, 3, "otherKind") {
			kind = int8(draw(t, N, R, "kind"))
		}
		base := []int8{Q, R, R, B, B, N, N}
		for _, k := range base {
			if chance(t, 3, 4, "base") {
				place(t, &p, side*k)
			}
		}
		for i := 0; i < promoted; i++ {
			k := kind
			if chance(t, 1, 5, "mix") {
				k = int8(draw(t, N, Q, "mixKind"))
			}
			place(t, &p, side*k)
		}
		for i := 0; i < 8-promoted; i++ {
			if chance(t, 1, 2, "pawn") {
				place(t, &p, side*P)
			}
		}
		for i := draw(t, 0, 2, "defenders"); i > 0; i-- {
			place(t, &p, -side*int8(draw(t, P, Q, "dk")))
		}
		trimMaterial(&p)
		w, b := p.InCheck(true), p.InCheck(false)
		if w && b {
			continue
		}
		p.White = w || (!b && chance(t, 1, 2, "stm"))
		p.Half, p.Full = draw(t, 0, 100, "half"), draw(t, 1, 200, "full")
		if p.Valid() == nil {
			return p
		}
	}
	return refchess.MustFEN("7k/8/8/8/NBNK4/QQQR4/QQQR4/QQQB4 w - - 0 1")
}
