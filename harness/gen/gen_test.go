package gen

import (
	"fmt"
	"sort"
	"testing"

	"pgregory.net/rapid"
)

// TestDistribution prints what the generators produce (run manually).
func TestDistribution(t *testing.T) {
	hist := map[string]int{}
	invalid := 0
	n := 0
	rapid.Check(t, func(t *rapid.T) {
		p, label := Root(t)
		n++
		hist[label]++
		if err := p.Valid(); err != nil {
			invalid++
			t.Fatalf("invalid %s: %v %s", label, err, p.FEN())
		}
		if p.InCheck(p.White) {
			hist["in_check"]++
		}
		if len(p.Legal()) == 0 {
			hist["terminal"]++
		}
		if p.EP >= 0 {
			hist["ep_raw"]++
			if p.EPCapturable() {
				hist["ep_capturable"]++
			}
		}
	})
	keys := []string{}
	for k := range hist {
		keys = append(keys, k)
	}
	sort.Strings(keys)
	for _, k := range keys {
		fmt.Printf("%-28s %d\n", k, hist[k])
	}
	fmt.Println("total", n, "invalid", invalid)
}
