package gen

import (
	"pgregory.net/rapid"

	"verif/refchess"
)

// History draws a game with actions biased towards recurrences.
func History(t *rapid.T, root refchess.Pos, maxSteps int) []string {
	return HistoryOpt(t, root, maxSteps, true)
}

// HistoryOpt is History; with stopAt100 false the game goes on past a halfmove clock of 100
// (as a GUI that does not adjudicate the fifty-move rule would let it).
func HistoryOpt(t *rapid.T, root refchess.Pos, maxSteps int, stopAt100 bool) []string {
	p := root
	var moves []refchess.Move
	var out []string
	steps := draw(t, 0, maxSteps, "steps")
	for len(out) < steps {
		legal := p.Legal()
		if len(legal) == 0 || (stopAt100 && p.Half >= 100) {
			break
		}
		find := func(m refchess.Move) bool {
			for _, l := range legal {
				if l == m {
					return true
				}
			}
			return false
		}
		var m refchess.Move
		ok := false
		switch draw(t, 0, 7, "action") {
		case 0, 1, 2: // reverse my move of two plies ago
			if n := len(moves); n >= 2 {
				m = refchess.Move{From: moves[n-2].To, To: moves[n-2].From}
				ok = find(m)
			}
		case 3: // replay the cycle of the last four plies
			if n := len(moves); n >= 4 {
				m = moves[n-4]
				ok = find(m)
			}
		case 4: // irreversible: capture or pawn move
			m, ok = PickMove(t, &p, legal, PreferCapture, refchess.Move{}), true
		case 5: // double pushes, castling, promotions (transient en-passant rights, lost castling rights)
			m, ok = PickMove(t, &p, legal, PreferSpecial, refchess.Move{}), true
		case 6: // king / rook / knight shuffles
			m, ok = PickMove(t, &p, legal, Shuffle, refchess.Move{}), true
		}
		if !ok {
			m = PickMove(t, &p, legal, Shuffle, refchess.Move{})
		}
		moves = append(moves, m)
		out = append(out, m.String())
		p = p.Make(m)
	}
	return out
}
