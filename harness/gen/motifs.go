package gen

import (
	"pgregory.net/rapid"

	"verif/refchess"
)

var dirs8 = [8][2]int{{1, 0}, {0, 1}, {-1, 0}, {0, -1}, {1, 1}, {-1, 1}, {-1, -1}, {1, -1}}

func onb(f, r int) bool { return f >= 0 && f < 8 && r >= 0 && r < 8 }

// fill adds drawn extra material of both colours to p (empty squares only).
func fill(t *rapid.T, p *refchess.Pos, maxEach int) {
	for side := 0; side < 2; side++ {
		n := draw(t, 0, maxEach, "extra")
		for i := 0; i < n; i++ {
			k := int8(draw(t, P, Q, "kind"))
			if side == 1 {
				k = -k
			}
			place(t, p, k)
		}
	}
}

// ensureKings places missing kings.
func ensureKings(t *rapid.T, p *refchess.Pos) {
	if p.KingSq(true) < 0 {
		sq := draw(t, 0, 63, "wk")
		for i := 0; i < 64; i++ {
			s := (sq + i) % 64
			bk := p.KingSq(false)
			if p.Sq[s] == 0 && (bk < 0 || !adjacent(s, bk)) {
				p.Sq[s] = K
				break
			}
		}
	}
	if p.KingSq(false) < 0 {
		sq := draw(t, 0, 63, "bk")
		wk := p.KingSq(true)
		for i := 0; i < 64; i++ {
			s := (sq + i) % 64
			if p.Sq[s] == 0 && !adjacent(s, wk) {
				p.Sq[s] = -K
				break
			}
		}
	}
}

// mirrorColors flips the position vertically and swaps colours (so every motif appears for both sides).
func MirrorColors(p refchess.Pos) refchess.Pos {
	var n refchess.Pos
	for sq, c := range p.Sq {
		n.Sq[(7-sq/8)*8+sq%8] = -c
	}
	n.White = !p.White
	n.Castle = [4]bool{p.Castle[refchess.BK], p.Castle[refchess.BQ], p.Castle[refchess.WK], p.Castle[refchess.WQ]}
	n.EP = -1
	if p.EP >= 0 {
		n.EP = (7-p.EP/8)*8 + p.EP%8
	}
	n.Half, n.Full = p.Half, p.Full
	return n
}

// MirrorMove maps a move to the vertically flipped board.
func MirrorMove(m refchess.Move) refchess.Move {
	return refchess.Move{From: (7-m.From/8)*8 + m.From%8, To: (7-m.To/8)*8 + m.To%8, Promo: m.Promo}
}

// trimMaterial removes surplus non-king pieces until the promotion bound holds.
func trimMaterial(p *refchess.Pos) {
	for guard := 0; guard < 64; guard++ {
		if err := p.Valid(); err == nil || err.Error() != "material not reachable" {
			return
		}
		// remove the last non-king, non-pawn piece found, else a pawn
		removed := false
		for sq := 63; sq >= 0 && !removed; sq-- {
			c := p.Sq[sq]
			if c < 0 {
				c = -c
			}
			if c >= N && c <= Q {
				p.Sq[sq] = 0
				removed = true
			}
		}
		if !removed {
			return
		}
	}
}

// PinMotif: white to move (then maybe colour-mirrored), a white piece pinned to
// its king by a black slider along a drawn line.
func PinMotif(t *rapid.T) (refchess.Pos, bool) {
	var p refchess.Pos
	ks := draw(t, 0, 63, "king")
	d := dirs8[draw(t, 0, 7, "dir")]
	a := draw(t, 1, 5, "a")
	b := draw(t, a+1, 7, "b")
	f, r := ks%8, ks/8
	if !onb(f+d[0]*b, r+d[1]*b) {
		return p, false
	}
	p.Sq[ks] = K
	pinned := int8(draw(t, P, Q, "pinned"))
	psq := (r+d[1]*a)*8 + f + d[0]*a
	if pinned == P && (psq/8 == 0 || psq/8 == 7) {
		pinned = N
	}
	p.Sq[psq] = pinned
	slider := int8(Q)
	if chance(t, 2, 3, "lineSlider") {
		if d[0] == 0 || d[1] == 0 {
			slider = R
		} else {
			slider = B
		}
	}
	p.Sq[(r+d[1]*b)*8+f+d[0]*b] = -slider
	ensureKings(t, &p)
	fill(t, &p, 6)
	// keep the line clear
	for i := 1; i < b; i++ {
		if i != a {
			p.Sq[(r+d[1]*i)*8+f+d[0]*i] = 0
		}
	}
	trimMaterial(&p)
	if !finish(t, &p) {
		return p, false
	}
	if !p.White && !p.InCheck(false) && chance(t, 3, 4, "forceWhite") {
		p.White = true
	}
	return p, p.Valid() == nil
}

// EPMotif builds a parent position and a legal double push such that the
// successor has an en-passant decision to make. Variants: plain, capturer
// pinned, horizontal pin of both pawns, push discovering a check through the
// origin square, two capturers. The mover is white, then possibly mirrored.
func EPMotif(t *rapid.T) (refchess.Pos, refchess.Move, string, bool) {
	var p refchess.Pos
	f := draw(t, 0, 7, "file")
	variant := draw(t, 0, 5, "variant")
	name := [...]string{"ep_plain", "ep_capturer_pinned", "ep_horizontal_pin", "ep_push_discovers_check", "ep_two_capturers", "ep_random"}[variant]
	from, to := 8+f, 24+f
	p.Sq[from] = P
	var adj []int
	if f > 0 {
		adj = append(adj, 24+f-1)
	}
	if f < 7 {
		adj = append(adj, 24+f+1)
	}
	cap1 := adj[draw(t, 0, len(adj)-1, "capturer")]
	p.Sq[cap1] = -P
	if variant == 4 {
		for _, s := range adj {
			p.Sq[s] = -P
		}
	}
	switch variant {
	case 1: // capturer pinned by a white slider against the black king along a drawn line through the capturer
		d := dirs8[draw(t, 0, 7, "pinDir")]
		cf, cr := cap1%8, cap1/8
		kd := draw(t, 1, 3, "kd")
		sd := draw(t, 1, 4, "sd")
		kf, kr := cf+d[0]*kd, cr+d[1]*kd
		sf, sr := cf-d[0]*sd, cr-d[1]*sd
		if onb(kf, kr) && onb(sf, sr) && p.Sq[kr*8+kf] == 0 && p.Sq[sr*8+sf] == 0 {
			p.Sq[kr*8+kf] = -K
			sl := int8(Q)
			if d[0] == 0 || d[1] == 0 {
				if chance(t, 1, 2, "rq") {
					sl = R
				}
			} else if chance(t, 1, 2, "bq") {
				sl = B
			}
			p.Sq[sr*8+sf] = sl
		}
	case 2: // black king and white rook/queen on the 4th rank with just the two pawns between (after the push)
		lo, hi := f, cap1%8
		if lo > hi {
			lo, hi = hi, lo
		}
		left := draw(t, 0, 1, "kingLeft") == 0
		var ksq, ssq int
		if left {
			ksq, ssq = 24+draw(t, 0, max(lo-1, 0), "kfile"), 24+draw(t, min(hi+1, 7), 7, "sfile")
		} else {
			ssq, ksq = 24+draw(t, 0, max(lo-1, 0), "sfile"), 24+draw(t, min(hi+1, 7), 7, "kfile")
		}
		if p.Sq[ksq] == 0 && p.Sq[ssq] == 0 && ksq != ssq {
			p.Sq[ksq] = -K
			if chance(t, 1, 2, "rq") {
				p.Sq[ssq] = R
			} else {
				p.Sq[ssq] = Q
			}
		}
	case 3: // white slider behind the origin square aiming through it at the black king
		d := dirs8[draw(t, 0, 7, "discDir")]
		if d[0] == 0 { // the file itself stays blocked by the pawn
			d = dirs8[4+draw(t, 0, 3, "discDiag")]
		}
		of, or := from%8, from/8
		sd := 1
		kd := draw(t, 1, 6, "kd")
		sf, sr := of-d[0]*sd, or-d[1]*sd
		kf, kr := of+d[0]*kd, or+d[1]*kd
		if onb(sf, sr) && onb(kf, kr) && p.Sq[sr*8+sf] == 0 && p.Sq[kr*8+kf] == 0 {
			sl := int8(Q)
			if d[1] == 0 {
				if chance(t, 1, 2, "rq") {
					sl = R
				}
			} else if chance(t, 1, 2, "bq") {
				sl = B
			}
			p.Sq[sr*8+sf] = sl
			p.Sq[kr*8+kf] = -K
		}
	}
	ensureKings(t, &p)
	fill(t, &p, draw(t, 0, 5, "density"))
	// the push must be possible
	p.Sq[16+f], p.Sq[24+f] = 0, 0
	p.Sq[from] = P
	trimMaterial(&p)
	p.White = true
	p.EP = -1
	p.Half = draw(t, 0, 20, "half")
	p.Full = draw(t, 1, 100, "full")
	if p.Valid() != nil {
		return p, refchess.Move{}, name, false
	}
	m := refchess.Move{From: from, To: to}
	ok := false
	for _, l := range p.Legal() {
		if l == m {
			ok = true
		}
	}
	return p, m, name, ok
}

// CastleMotif: kings and rooks at home with rights; drawn enemy pieces bear on
// the king's path, drawn pieces stand between king and rook.
func CastleMotif(t *rapid.T) (refchess.Pos, bool) {
	var p refchess.Pos
	p.Sq[4], p.Sq[60] = K, -K
	for _, s := range []int{0, 7} {
		if chance(t, 5, 6, "wr") {
			p.Sq[s] = R
		}
	}
	for _, s := range []int{56, 63} {
		if chance(t, 5, 6, "br") {
			p.Sq[s] = -R
		}
	}
	// attackers on drawn squares of ranks 2..4 / 5..7 and random blockers on the back ranks
	n := draw(t, 0, 4, "attackers")
	for i := 0; i < n; i++ {
		k := int8(draw(t, N, Q, "ak"))
		sq := draw(t, 8, 39, "asq")
		if p.Sq[sq] == 0 {
			p.Sq[sq] = -k
		}
		k = int8(draw(t, N, Q, "ak2"))
		sq = draw(t, 24, 55, "asq2")
		if p.Sq[sq] == 0 {
			p.Sq[sq] = k
		}
	}
	if chance(t, 1, 3, "pawnAttack") { // a black pawn on the 2nd rank attacks two first-rank squares
		sq := draw(t, 8, 15, "bp")
		if p.Sq[sq] == 0 {
			p.Sq[sq] = -P
		}
	}
	if chance(t, 1, 3, "blocker") {
		sq := []int{1, 2, 3, 5, 6, 57, 58, 59, 61, 62}[draw(t, 0, 9, "bsq")]
		k := int8(draw(t, N, Q, "bk"))
		if sq >= 56 {
			k = -k
		}
		p.Sq[sq] = k
	}
	fill(t, &p, draw(t, 0, 4, "density"))
	trimMaterial(&p)
	if !finish(t, &p) {
		return p, false
	}
	// rights mostly on
	if p.Sq[4] == K && p.Sq[7] == R {
		p.Castle[refchess.WK] = !chance(t, 1, 8, "noK")
	}
	if p.Sq[4] == K && p.Sq[0] == R {
		p.Castle[refchess.WQ] = !chance(t, 1, 8, "noQ")
	}
	if p.Sq[60] == -K && p.Sq[63] == -R {
		p.Castle[refchess.BK] = !chance(t, 1, 8, "nok")
	}
	if p.Sq[60] == -K && p.Sq[56] == -R {
		p.Castle[refchess.BQ] = !chance(t, 1, 8, "noq")
	}
	return p, p.Valid() == nil
}

// PromoMotif: pawns one step from promotion with capture targets (including rooks on corners carrying rights).
func PromoMotif(t *rapid.T) (refchess.Pos, bool) {
	var p refchess.Pos
	if chance(t, 1, 2, "homeK") {
		p.Sq[60] = -K
		if chance(t, 2, 3, "a8") {
			p.Sq[56] = -R
		}
		if chance(t, 2, 3, "h8") {
			p.Sq[63] = -R
		}
		p.Sq[4] = K
		if chance(t, 1, 2, "h1") {
			p.Sq[7] = R
		}
		if chance(t, 1, 2, "a1") {
			p.Sq[0] = R
		}
	}
	n := draw(t, 1, 3, "pawns7")
	for i := 0; i < n; i++ {
		sq := 48 + draw(t, 0, 7, "pf")
		if p.Sq[sq] == 0 {
			p.Sq[sq] = P
		}
	}
	n = draw(t, 0, 2, "pawns2")
	for i := 0; i < n; i++ {
		sq := 8 + draw(t, 0, 7, "pf2")
		if p.Sq[sq] == 0 {
			p.Sq[sq] = -P
		}
	}
	n = draw(t, 0, 4, "back8")
	for i := 0; i < n; i++ {
		sq := 56 + draw(t, 0, 7, "b8")
		if p.Sq[sq] == 0 {
			p.Sq[sq] = -int8(draw(t, N, Q, "b8k"))
		}
	}
	n = draw(t, 0, 3, "back1")
	for i := 0; i < n; i++ {
		sq := draw(t, 0, 7, "b1")
		if p.Sq[sq] == 0 {
			p.Sq[sq] = int8(draw(t, N, Q, "b1k"))
		}
	}
	ensureKings(t, &p)
	fill(t, &p, draw(t, 0, 4, "density"))
	trimMaterial(&p)
	if !finish(t, &p) {
		return p, false
	}
	return p, p.Valid() == nil
}

// BoxedKingMotif: the side to move has a king on the rim hemmed in by own
// pieces and enemy control, usually in check by a drawn checker - the cases
// where mate/stalemate verdicts rest on capture/block/pin analysis.
func BoxedKingMotif(t *rapid.T) (refchess.Pos, bool) {
	var p refchess.Pos
	// king on the rim
	var ks int
	switch draw(t, 0, 3, "rim") {
	case 0:
		ks = draw(t, 0, 7, "kf")
	case 1:
		ks = 56 + draw(t, 0, 7, "kf")
	case 2:
		ks = 8 * draw(t, 0, 7, "kr")
	default:
		ks = 8*draw(t, 0, 7, "kr") + 7
	}
	p.Sq[ks] = K
	f, r := ks%8, ks/8
	// own blockers on drawn neighbours
	for _, d := range dirs8 {
		if onb(f+d[0], r+d[1]) && chance(t, 1, 2, "own") {
			sq := (r+d[1])*8 + f + d[0]
			k := int8(draw(t, P, Q, "ownK"))
			if k == P && (sq/8 == 0 || sq/8 == 7) {
				k = N
			}
			p.Sq[sq] = k
		}
	}
	// enemy pieces: a checker or controller along drawn lines / knight jumps
	n := draw(t, 1, 4, "enemies")
	for i := 0; i < n; i++ {
		k := int8(draw(t, P, Q, "ek"))
		var sq int
		if k == N {
			d := [8][2]int{{1, 2}, {2, 1}, {2, -1}, {1, -2}, {-1, -2}, {-2, -1}, {-2, 1}, {-1, 2}}[draw(t, 0, 7, "nj")]
			tf, tr := f+d[0]+draw(t, -1, 1, "nf"), r+d[1]+draw(t, -1, 1, "nr")
			if !onb(tf, tr) {
				continue
			}
			sq = tr*8 + tf
		} else {
			d := dirs8[draw(t, 0, 7, "ed")]
			dist := draw(t, 1, 7, "edist")
			tf, tr := f+d[0]*dist+draw(t, -1, 1, "of"), r+d[1]*dist+draw(t, -1, 1, "or")
			if !onb(tf, tr) {
				continue
			}
			sq = tr*8 + tf
		}
		if p.Sq[sq] != 0 || (k == P && (sq/8 == 0 || sq/8 == 7)) {
			continue
		}
		p.Sq[sq] = -k
	}
	ensureKings(t, &p)
	fill(t, &p, draw(t, 0, 3, "density"))
	trimMaterial(&p)
	if !finish(t, &p) {
		return p, false
	}
	if !p.InCheck(false) {
		p.White = true
	}
	return p, p.Valid() == nil
}

// BatteryMotif: several pieces of both colours lined up on one target square (x-rays, stacked batteries).
func BatteryMotif(t *rapid.T) (refchess.Pos, bool) {
	var p refchess.Pos
	ts := draw(t, 8, 55, "target")
	f, r := ts%8, ts/8
	if chance(t, 3, 4, "victim") {
		p.Sq[ts] = -int8(draw(t, P, Q, "victim"))
	}
	lines := draw(t, 2, 6, "lines")
	for i := 0; i < lines; i++ {
		d := dirs8[draw(t, 0, 7, "bd")]
		cnt := draw(t, 1, 3, "stack")
		dist := 1
		for j := 0; j < cnt; j++ {
			dist += draw(t, 0, 1, "gap")
			tf, tr := f+d[0]*dist, r+d[1]*dist
			if !onb(tf, tr) {
				break
			}
			sq := tr*8 + tf
			dist++
			if p.Sq[sq] != 0 {
				continue
			}
			var k int8
			if d[0] == 0 || d[1] == 0 {
				k = []int8{R, Q, R}[draw(t, 0, 2, "ok")]
			} else {
				k = []int8{B, Q, B}[draw(t, 0, 2, "dk")]
				if j == 0 && dist == 2 && chance(t, 1, 3, "pawnFront") {
					// pawn directly adjacent diagonally: colour decided by direction
					if d[1] < 0 { // below target: white pawn attacks upward
						if sq/8 >= 1 && sq/8 <= 6 {
							p.Sq[sq] = P
							continue
						}
					} else if sq/8 >= 1 && sq/8 <= 6 {
						p.Sq[sq] = -P
						continue
					}
				}
			}
			if chance(t, 1, 2, "colour") {
				k = -k
			}
			p.Sq[sq] = k
		}
	}
	nk := draw(t, 0, 3, "knights")
	for i := 0; i < nk; i++ {
		d := [8][2]int{{1, 2}, {2, 1}, {2, -1}, {1, -2}, {-1, -2}, {-2, -1}, {-2, 1}, {-1, 2}}[draw(t, 0, 7, "nj")]
		if onb(f+d[0], r+d[1]) && p.Sq[(r+d[1])*8+f+d[0]] == 0 {
			k := int8(N)
			if chance(t, 1, 2, "ncol") {
				k = -k
			}
			p.Sq[(r+d[1])*8+f+d[0]] = k
		}
	}
	// kings sometimes adjacent to the target
	if chance(t, 1, 2, "kingNear") {
		d := dirs8[draw(t, 0, 7, "kd")]
		if onb(f+d[0], r+d[1]) && p.Sq[(r+d[1])*8+f+d[0]] == 0 {
			if chance(t, 1, 2, "kcol") {
				p.Sq[(r+d[1])*8+f+d[0]] = K
			} else {
				p.Sq[(r+d[1])*8+f+d[0]] = -K
			}
		}
	}
	ensureKings(t, &p)
	fill(t, &p, draw(t, 0, 3, "density"))
	trimMaterial(&p)
	if !finish(t, &p) {
		return p, false
	}
	return p, p.Valid() == nil
}

// BlockMotif: white to move, in check from one black slider at a distance, with own pawns
// (single, doubled, on their 2nd/3rd ranks), knights and line pieces placed so that blocking
// by a single or double pawn push, by a piece, or not at all (pins, obstructed pushes) is what
// decides between mate and not mate; the king's flight squares are mostly taken or covered.
func BlockMotif(t *rapid.T) (refchess.Pos, bool) {
	var p refchess.Pos
	ks := draw(t, 0, 63, "king")
	f, r := ks%8, ks/8
	d := dirs8[draw(t, 0, 7, "dir")]
	dist := draw(t, 2, 6, "dist")
	cf, cr := f+d[0]*dist, r+d[1]*dist
	if !onb(cf, cr) {
		return p, false
	}
	p.Sq[ks] = K
	checker := int8(Q)
	if chance(t, 2, 3, "lineChecker") {
		if d[0] == 0 || d[1] == 0 {
			checker = R
		} else {
			checker = B
		}
	}
	p.Sq[cr*8+cf] = -checker
	// pawns below the squares between king and checker
	for i := 1; i < dist; i++ {
		bf, br := f+d[0]*i, r+d[1]*i
		if br >= 2 && chance(t, 2, 3, "pawnBelow") {
			switch draw(t, 0, 4, "pawnShape") {
			case 0:
				p.Sq[(br-1)*8+bf] = P
			case 1:
				if br == 3 {
					p.Sq[8+bf] = P // double push needed
				} else {
					p.Sq[(br-1)*8+bf] = P
				}
			case 2:
				if br == 3 { // doubled pawns: the rear one cannot jump
					p.Sq[8+bf], p.Sq[16+bf] = P, P
					pinThrough(t, &p, ks, 16+bf)
				}
			case 3:
				if br == 3 { // something else in the way of the double push
					p.Sq[8+bf] = P
					p.Sq[16+bf] = []int8{N, -N, -P, B}[draw(t, 0, 3, "blocker")]
				}
			default:
				if br-1 >= 1 {
					p.Sq[(br-1)*8+bf] = P
					pinThrough(t, &p, ks, (br-1)*8+bf) // the would-be blocker is pinned if it is aligned with the king
				}
			}
		}
	}
	// own pieces that might block or capture, possibly pinned by extra sliders aimed at the king
	for i := draw(t, 0, 3, "ownPieces"); i > 0; i-- {
		place(t, &p, int8(draw(t, N, Q, "own")))
	}
	for i := draw(t, 0, 3, "pinners"); i > 0; i-- {
		pd := dirs8[draw(t, 0, 7, "pd")]
		n := draw(t, 2, 7, "pdist")
		if pd == d || !onb(f+pd[0]*n, r+pd[1]*n) {
			continue
		}
		sq := (r+pd[1]*n)*8 + f + pd[0]*n
		if p.Sq[sq] == 0 {
			sl := int8(Q)
			if pd[0] == 0 || pd[1] == 0 {
				sl = []int8{R, Q}[draw(t, 0, 1, "rq")]
			} else {
				sl = []int8{B, Q}[draw(t, 0, 1, "bq")]
			}
			p.Sq[sq] = -sl
		}
	}
	// take away flight squares: own pawns / pieces next to the king
	for _, kd := range dirs8 {
		if onb(f+kd[0], r+kd[1]) && p.Sq[(r+kd[1])*8+f+kd[0]] == 0 && kd != d && chance(t, 3, 5, "box") {
			sq := (r+kd[1])*8 + f + kd[0]
			k := []int8{P, P, N, B, R}[draw(t, 0, 4, "boxKind")]
			if k == P && (sq/8 == 0 || sq/8 == 7) {
				k = N
			}
			p.Sq[sq] = k
		}
	}
	ensureKings(t, &p)
	for i := draw(t, 0, 3, "blackExtra"); i > 0; i-- {
		place(t, &p, -int8(draw(t, P, Q, "bk")))
	}
	trimMaterial(&p)
	p.White = true
	p.EP = -1
	p.Half, p.Full = draw(t, 0, 30, "half"), draw(t, 1, 80, "full")
	if p.Valid() != nil || !p.InCheck(true) {
		return p, false
	}
	return p, true
}

// pinThrough places a black slider behind the piece on sq on the line from the king through sq,
// if the two are aligned with nothing in between (the piece becomes pinned).
func pinThrough(t *rapid.T, p *refchess.Pos, ks, sq int) {
	df, dr := sq%8-ks%8, sq/8-ks/8
	adf, adr := df, dr
	if adf < 0 {
		adf = -adf
	}
	if adr < 0 {
		adr = -adr
	}
	if !(df == 0 || dr == 0 || adf == adr) || (df == 0 && dr == 0) {
		return
	}
	sf, sr := 0, 0
	if df != 0 {
		sf = df / adf
	}
	if dr != 0 {
		sr = dr / adr
	}
	for f, r := ks%8+sf, ks/8+sr; f != sq%8 || r != sq/8; f, r = f+sf, r+sr {
		if p.Sq[r*8+f] != 0 {
			return
		}
	}
	n := draw(t, 1, 4, "pinnerDist")
	f, r := sq%8+sf*n, sq/8+sr*n
	if !onb(f, r) {
		return
	}
	for i := 1; i < n; i++ {
		if p.Sq[(sq/8+sr*i)*8+sq%8+sf*i] != 0 {
			return
		}
	}
	if p.Sq[r*8+f] != 0 {
		return
	}
	sl := int8(Q)
	if sf == 0 || sr == 0 {
		sl = []int8{R, Q}[draw(t, 0, 1, "rq")]
	} else {
		sl = []int8{B, Q}[draw(t, 0, 1, "bq")]
	}
	p.Sq[r*8+f] = -sl
}

// EPTwoOnePinned: a double push flanked by two enemy pawns of which exactly one is pinned to
// its king (so an en-passant capture is legal for the other one only).
func EPTwoOnePinned(t *rapid.T) (refchess.Pos, refchess.Move, bool) {
	var p refchess.Pos
	f := draw(t, 1, 6, "file")
	from, to := 8+f, 24+f
	p.Sq[from] = P
	p.Sq[24+f-1], p.Sq[24+f+1] = -P, -P
	pinned := 24 + f - 1
	if chance(t, 1, 2, "right") {
		pinned = 24 + f + 1
	}
	// black king behind the pinned pawn on a line that an en-passant capture would leave, white slider on the other side
	d := dirs8[draw(t, 0, 7, "pinDir")]
	kd, sd := draw(t, 1, 3, "kd"), draw(t, 1, 4, "sd")
	kf, kr := pinned%8+d[0]*kd, pinned/8+d[1]*kd
	sf, sr := pinned%8-d[0]*sd, pinned/8-d[1]*sd
	if !onb(kf, kr) || !onb(sf, sr) || p.Sq[kr*8+kf] != 0 || p.Sq[sr*8+sf] != 0 {
		return p, refchess.Move{}, false
	}
	p.Sq[kr*8+kf] = -K
	if d[0] == 0 || d[1] == 0 {
		p.Sq[sr*8+sf] = []int8{R, Q}[draw(t, 0, 1, "rq")]
	} else {
		p.Sq[sr*8+sf] = []int8{B, Q}[draw(t, 0, 1, "bq")]
	}
	ensureKings(t, &p)
	fill(t, &p, draw(t, 0, 3, "density"))
	p.Sq[16+f], p.Sq[24+f] = 0, 0
	p.Sq[from] = P
	p.Sq[24+f-1], p.Sq[24+f+1] = -P, -P
	trimMaterial(&p)
	p.White, p.EP, p.Half, p.Full = true, -1, draw(t, 0, 20, "half"), draw(t, 1, 100, "full")
	if p.Valid() != nil {
		return p, refchess.Move{}, false
	}
	m := refchess.Move{From: from, To: to}
	for _, l := range p.Legal() {
		if l == m {
			return p, m, true
		}
	}
	return p, m, false
}

// EPOnlyMotif: a position (engine-normalised en-passant field set) in which the side to move is not
// in check and has few or no moves besides an en-passant capture: a cornered king, the capturing pawn
// blocked, heavy enemy pieces around - the cases where stalemate detection rests on the en-passant rule.
// ok reports whether an en-passant capture is pseudo-legal and no king move is legal.
func EPOnlyMotif(t *rapid.T) (refchess.Pos, bool) {
	for attempt := 0; attempt < 6; attempt++ {
		var p refchess.Pos
		f := draw(t, 0, 7, "file")
		var nb []int
		if f > 0 {
			nb = append(nb, f-1)
		}
		if f < 7 {
			nb = append(nb, f+1)
		}
		cf := nb[draw(t, 0, len(nb)-1, "capFile")]
		p.Sq[48+f] = -P // black pawn about to push two squares
		p.Sq[32+cf] = P // white capturer on its 5th rank
		if chance(t, 2, 3, "blockCapturer") {
			p.Sq[40+cf] = -int8(draw(t, N, Q, "blocker"))
		}
		// white king on the rim
		var ks int
		switch draw(t, 0, 3, "rim") {
		case 0:
			ks = draw(t, 0, 7, "kf")
		case 1:
			ks = 56 + draw(t, 0, 7, "kf")
		case 2:
			ks = 8 * draw(t, 0, 7, "kr")
		default:
			ks = 8*draw(t, 0, 7, "kr") + 7
		}
		if p.Sq[ks] != 0 || ks == 40+f || ks == 32+f {
			continue
		}
		p.Sq[ks] = K
		for i := draw(t, 2, 4, "heavy"); i > 0; i-- {
			place(t, &p, -[]int8{Q, R, B, Q, R}[draw(t, 0, 4, "hk")])
		}
		ensureKings(t, &p)
		p.Sq[40+f], p.Sq[32+f] = 0, 0
		trimMaterial(&p)
		p.White, p.EP, p.Half, p.Full = false, -1, 0, draw(t, 1, 60, "full")
		if p.Valid() != nil {
			continue
		}
		push := refchess.Move{From: 48 + f, To: 32 + f}
		legalPush := false
		for _, m := range p.Legal() {
			legalPush = legalPush || m == push
		}
		if !legalPush {
			continue
		}
		c := p.Make(push)
		if c.InCheck(true) {
			continue
		}
		kingMove := false
		for _, m := range c.Legal() {
			if m.From == ks {
				kingMove = true
			}
		}
		if kingMove {
			continue
		}
		return c.NormEP(), true
	}
	return refchess.Pos{}, false
}
