package gen

import (
	"os"
	"sync"

	"pgregory.net/rapid"

	"verif/refchess"
)

var suiteOnce sync.Once
var suite []refchess.Pos
var bench []refchess.Pos

// RepoDir is where the repository under test lives.
func RepoDir() string {
	if d := os.Getenv("VERIF_REPO"); d != "" {
		return d
	}
	return "/repo"
}

func loadSuite() {
	for _, f := range refchess.SuiteFENs(RepoDir() + "/debug/standard.epd") {
		p := refchess.MustFEN(f)
		if p.Valid() == nil {
			suite = append(suite, p)
		}
	}
	for _, f := range BenchFENs {
		p, err := refchess.ParseFEN(f)
		if err == nil && p.Valid() == nil {
			bench = append(bench, p)
		}
	}
}

// SuiteRoots are the valid root positions of the repository's perft suite file.
func SuiteRoots() []refchess.Pos { suiteOnce.Do(loadSuite); return suite }

// BenchRoots are the valid bench positions.
func BenchRoots() []refchess.Pos { suiteOnce.Do(loadSuite); return bench }

// Root draws a valid root position and a label naming its family. The
// en-passant field follows the raw policy (set after any double push).
func Root(t *rapid.T) (refchess.Pos, string) {
	suiteOnce.Do(loadSuite)
	for attempt := 0; attempt < 4; attempt++ {
		switch draw(t, 0, 13, "family") {
		case 0:
			return refchess.MustFEN(StartFEN), "startpos"
		case 1:
			if len(suite) > 0 {
				return suite[draw(t, 0, len(suite)-1, "suiteIx")], "suite"
			}
		case 2:
			if len(bench) > 0 {
				return bench[draw(t, 0, len(bench)-1, "benchIx")], "bench"
			}
		case 3, 4, 5:
			return Synthetic(t), "synthetic"
		case 6:
			if p, ok := PinMotif(t); ok {
				return maybeMirror(t, p), "pin"
			}
		case 7:
			if p, m, name, ok := EPMotif(t); ok {
				c := p.Make(m)
				return maybeMirror(t, c), name
			}
		case 8:
			if p, ok := CastleMotif(t); ok {
				return p, "castle"
			}
		case 9:
			if p, ok := PromoMotif(t); ok {
				return maybeMirror(t, p), "promo"
			}
		case 10:
			if p, ok := BoxedKingMotif(t); ok {
				return maybeMirror(t, p), "boxed"
			}
		case 11:
			if p, ok := BatteryMotif(t); ok {
				return p, "battery"
			}
		case 13:
			return Extreme(t), "extreme_material"
		case 12:
			if p, ok := BlockMotif(t); ok {
				return maybeMirror(t, p), "block"
			}
		}
	}
	return Synthetic(t), "synthetic"
}

func maybeMirror(t *rapid.T, p refchess.Pos) refchess.Pos {
	if chance(t, 1, 2, "mirror") {
		return MirrorColors(p)
	}
	return p
}

// Draw and Chance are exported for checks that need extra draws.
func Draw(t *rapid.T, lo, hi int, label string) int { return draw(t, lo, hi, label) }

// Chance is true with probability num/den.
func Chance(t *rapid.T, num, den int, label string) bool { return chance(t, num, den, label) }
