package gen

import (
	"strings"

	"pgregory.net/rapid"

	"verif/refchess"
)

// EarlierPositions draws 0..3 conforming UCI lines (`position ...` commands, sometimes `ucinewgame`) that a GUI
// could have sent on the same driver BEFORE the position command a check judges: the same base with no move
// list, with a prefix of the judged move list, with a move list that diverges from it at some ply (same or
// greater length: another reply, a take-back followed by another line), the same placement with other move
// counters, an unrelated game from the start position, another FEN. None of them produces output, and none of
// them may influence what the judged command sets up. fen is the base FEN of the judged command (start=true:
// `position startpos`), moves its move list.
func EarlierPositions(t *rapid.T, fen string, start bool, moves []string) []string {
	n := draw(t, 0, 5, "earlierCommands") - 2 // half of the sessions have none
	var out []string
	base := "position fen " + fen
	if start {
		base = "position startpos"
		fen = StartFEN
	}
	with := func(b string, ms []string) string {
		if len(ms) == 0 {
			return b
		}
		return b + " moves " + strings.Join(ms, " ")
	}
	root, err := refchess.ParseFEN(fen)
	if err != nil {
		return nil
	}
	for ; n > 0; n-- {
		switch draw(t, 0, 9, "earlierKind") {
		case 8: // part of the judged game, then another position: the driver must forget the first when it sees the second
			k := 0
			if len(moves) > 0 {
				k = draw(t, 1, len(moves), "sandwichPrefix")
			}
			other := "position startpos"
			if start || chance(t, 1, 2, "sandwichFEN") {
				r, _ := Root(t)
				other = "position fen " + r.FEN()
			}
			out = append(out, with(base, moves[:k]), other)
		case 9: // part of the judged game, then back to its base without moves (take back to the root, new game from it)
			k := 0
			if len(moves) > 0 {
				k = draw(t, 1, len(moves), "backPrefix")
			}
			out = append(out, with(base, moves[:k]), base)
		case 0:
			out = append(out, base)
		case 1:
			out = append(out, with(base, moves[:draw(t, 0, len(moves), "earlierPrefix")]))
		case 2, 3: // diverging line of the same length (or a little longer): moves[:k] + other moves
			k := 0
			if len(moves) > 0 {
				k = draw(t, 0, len(moves)-1, "divergeAt")
			}
			p := root
			ok := true
			for _, s := range moves[:k] {
				m, err := refchess.ParseMove(s)
				if err != nil {
					ok = false
					break
				}
				p = p.Make(m)
			}
			if !ok {
				continue
			}
			line := append([]string{}, moves[:k]...)
			want := len(moves) + draw(t, 0, 2, "divergeExtra")
			for len(line) < want {
				legal := p.Legal()
				if len(legal) == 0 || p.Half >= 100 {
					break
				}
				m := legal[draw(t, 0, len(legal)-1, "divergeMove")]
				if len(line) == k && k < len(moves) && m.String() == moves[k] && len(legal) > 1 {
					m = legal[(draw(t, 0, len(legal)-2, "divergeOther")+1+indexOf(legal, moves[k]))%len(legal)]
				}
				line = append(line, m.String())
				p = p.Make(m)
			}
			out = append(out, with(base, line))
		case 4: // the same placement, side and rights with other move counters (kept valid: clock 0 with an en-passant target)
			q := root
			if q.EP < 0 {
				q.Half = draw(t, 0, 99, "otherHalf")
			}
			q.Full = draw(t, 1, 200, "otherFull")
			ms := moves
			if chance(t, 1, 2, "countersNoMoves") {
				ms = nil
			}
			out = append(out, with("position fen "+q.FEN(), ms))
		case 5:
			sp := refchess.MustFEN(StartFEN)
			var line []string
			for i := draw(t, 0, 12, "otherGamePlies"); i > 0; i-- {
				legal := sp.Legal()
				if len(legal) == 0 {
					break
				}
				m := legal[draw(t, 0, len(legal)-1, "otherGameMove")]
				line = append(line, m.String())
				sp = sp.Make(m)
			}
			out = append(out, with("position startpos", line))
		case 6:
			r, _ := Root(t)
			out = append(out, "position fen "+r.FEN())
		default:
			out = append(out, "ucinewgame")
		}
	}
	return out
}

func indexOf(legal []refchess.Move, s string) int {
	for i, m := range legal {
		if m.String() == s {
			return i
		}
	}
	return 0
}
