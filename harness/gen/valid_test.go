package gen

import (
	"testing"

	"pgregory.net/rapid"

	"verif/refchess"
)

// TestEverythingValid: every position any generator hands out is valid in the sense of refchess.Valid.
func TestEverythingValid(t *testing.T) {
	chk := func(t interface{ Fatalf(string, ...any) }, what string, p *refchess.Pos) {
		if err := p.Valid(); err != nil {
			t.Fatalf("%s hands out an invalid position: %v %s", what, err, p.FEN())
		}
	}
	rapid.Check(t, func(t *rapid.T) {
		if p, ok := PinMotif(t); ok {
			chk(t, "PinMotif", &p)
		}
		if p, _, _, ok := EPMotif(t); ok {
			chk(t, "EPMotif", &p)
		}
		if p, ok := CastleMotif(t); ok {
			chk(t, "CastleMotif", &p)
		}
		if p, ok := PromoMotif(t); ok {
			chk(t, "PromoMotif", &p)
		}
		if p, ok := BoxedKingMotif(t); ok {
			chk(t, "BoxedKingMotif", &p)
		}
		if p, ok := BatteryMotif(t); ok {
			chk(t, "BatteryMotif", &p)
		}
		if p, ok := BlockMotif(t); ok {
			chk(t, "BlockMotif", &p)
		}
		if p, _, ok := EPTwoOnePinned(t); ok {
			chk(t, "EPTwoOnePinned", &p)
		}
		if p, ok := EPOnlyMotif(t); ok {
			chk(t, "EPOnlyMotif", &p)
		}
		p := Synthetic(t)
		chk(t, "Synthetic", &p)
		p = Extreme(t)
		chk(t, "Extreme", &p)
	})
	n := 0
	Enumerate([]int8{refchess.Queen, -refchess.Rook}, 0, 1, func(p *refchess.Pos) bool { n++; chk(t, "Enumerate", p); return true })
	CastleTable([]int8{refchess.Queen}, false, 0, 4, func(p *refchess.Pos) bool { n++; chk(t, "CastleTable", p); return true })
	EPTable(0, 4, func(p *refchess.Pos, _ refchess.Move) bool { n++; chk(t, "EPTable", p); return true })
	t.Logf("%d table positions", n)
}
