// Package refchess is a deliberately naive reference implementation of the
// FIDE rules of chess: 8x8 mailbox, ray walking, copy-make legality. It is the
// oracle for the board-family checks and shares no code, table or technique
// with the engine under test (no bitboards, no magics, no incremental state).
package refchess

import (
	"fmt"
	"sort"
	"strconv"
	"strings"
)

// Piece kinds. The sign of a square's code carries the colour: >0 white, <0 black.
const (
	Empty  = 0
	Pawn   = 1
	Knight = 2
	Bishop = 3
	Rook   = 4
	Queen  = 5
	King   = 6
)

// Castling right indices.
const (
	WK = iota
	WQ
	BK
	BQ
)

// Pos is a chess position.
type Pos struct {
	Sq     [64]int8 // a1=0, b1=1, ... h8=63
	White  bool     // white to move
	Castle [4]bool
	EP     int // en-passant target square or -1
	Half   int
	Full   int
}

// Move is a move in a position.
type Move struct {
	From, To int
	Promo    int // 0 or Knight..Queen
}

func (m Move) String() string {
	s := SqName(m.From) + SqName(m.To)
	if m.Promo != 0 {
		s += string(" pnbrqk"[m.Promo])
	}
	return s
}

// Enc is the 15 bit encoding the engine uses for the move: to | from<<6 | promo<<12.
func (m Move) Enc() uint16 { return uint16(m.To) | uint16(m.From)<<6 | uint16(m.Promo)<<12 }

// SqName is the algebraic name of sq.
func SqName(sq int) string { return string([]byte{byte('a' + sq%8), byte('1' + sq/8)}) }

func abs(x int) int {
	if x < 0 {
		return -x
	}
	return x
}

func kind(c int8) int {
	if c < 0 {
		return int(-c)
	}
	return int(c)
}

func sign(white bool) int8 {
	if white {
		return 1
	}
	return -1
}

var knightD = [8][2]int{{1, 2}, {2, 1}, {2, -1}, {1, -2}, {-1, -2}, {-2, -1}, {-2, 1}, {-1, 2}}
var kingD = [8][2]int{{1, 0}, {1, 1}, {0, 1}, {-1, 1}, {-1, 0}, {-1, -1}, {0, -1}, {1, -1}}
var diagD = [4][2]int{{1, 1}, {-1, 1}, {-1, -1}, {1, -1}}
var orthD = [4][2]int{{1, 0}, {0, 1}, {-1, 0}, {0, -1}}

func on(f, r int) bool { return f >= 0 && f < 8 && r >= 0 && r < 8 }

// Attacked reports whether sq is attacked by a piece of the given colour.
func (p *Pos) Attacked(sq int, byWhite bool) bool {
	f, r := sq%8, sq/8
	s := sign(byWhite)
	// pawns: a white pawn on (f±1, r-1) attacks (f, r)
	pr := r - 1
	if !byWhite {
		pr = r + 1
	}
	for _, df := range []int{-1, 1} {
		if on(f+df, pr) && p.Sq[pr*8+f+df] == s*Pawn {
			return true
		}
	}
	for _, d := range knightD {
		if on(f+d[0], r+d[1]) && p.Sq[(r+d[1])*8+f+d[0]] == s*Knight {
			return true
		}
	}
	for _, d := range kingD {
		if on(f+d[0], r+d[1]) && p.Sq[(r+d[1])*8+f+d[0]] == s*King {
			return true
		}
	}
	for _, d := range diagD {
		for ff, rr := f+d[0], r+d[1]; on(ff, rr); ff, rr = ff+d[0], rr+d[1] {
			c := p.Sq[rr*8+ff]
			if c != 0 {
				if c == s*Bishop || c == s*Queen {
					return true
				}
				break
			}
		}
	}
	for _, d := range orthD {
		for ff, rr := f+d[0], r+d[1]; on(ff, rr); ff, rr = ff+d[0], rr+d[1] {
			c := p.Sq[rr*8+ff]
			if c != 0 {
				if c == s*Rook || c == s*Queen {
					return true
				}
				break
			}
		}
	}
	return false
}

// AttackersOf lists the squares of pieces of the given colour attacking sq.
func (p *Pos) AttackersOf(sq int, byWhite bool) []int {
	var res []int
	f, r := sq%8, sq/8
	s := sign(byWhite)
	pr := r - 1
	if !byWhite {
		pr = r + 1
	}
	for _, df := range []int{-1, 1} {
		if on(f+df, pr) && p.Sq[pr*8+f+df] == s*Pawn {
			res = append(res, pr*8+f+df)
		}
	}
	for _, d := range knightD {
		if on(f+d[0], r+d[1]) && p.Sq[(r+d[1])*8+f+d[0]] == s*Knight {
			res = append(res, (r+d[1])*8+f+d[0])
		}
	}
	for _, d := range kingD {
		if on(f+d[0], r+d[1]) && p.Sq[(r+d[1])*8+f+d[0]] == s*King {
			res = append(res, (r+d[1])*8+f+d[0])
		}
	}
	for _, d := range diagD {
		for ff, rr := f+d[0], r+d[1]; on(ff, rr); ff, rr = ff+d[0], rr+d[1] {
			c := p.Sq[rr*8+ff]
			if c != 0 {
				if c == s*Bishop || c == s*Queen {
					res = append(res, rr*8+ff)
				}
				break
			}
		}
	}
	for _, d := range orthD {
		for ff, rr := f+d[0], r+d[1]; on(ff, rr); ff, rr = ff+d[0], rr+d[1] {
			c := p.Sq[rr*8+ff]
			if c != 0 {
				if c == s*Rook || c == s*Queen {
					res = append(res, rr*8+ff)
				}
				break
			}
		}
	}
	return res
}

// KingSq is the square of the king of the given colour, -1 if there is none.
func (p *Pos) KingSq(white bool) int {
	k := sign(white) * King
	for i, c := range p.Sq {
		if c == k {
			return i
		}
	}
	return -1
}

// InCheck reports whether the king of the given colour is attacked.
func (p *Pos) InCheck(white bool) bool {
	k := p.KingSq(white)
	return k >= 0 && p.Attacked(k, !white)
}

// Pseudo lists the pseudo-legal moves: every move that obeys piece movement,
// occupancy, castling and en-passant rules but may leave the own king attacked.
// Castling is included only when fully legal (rights, empty path, king not in
// check, transit and target squares not attacked) - as in the FIDE definition
// castling has no "pseudo" version.
func (p *Pos) Pseudo() []Move {
	var ms []Move
	s := sign(p.White)
	for from, c := range p.Sq {
		if c == 0 || (c > 0) != p.White {
			continue
		}
		f, r := from%8, from/8
		switch kind(c) {
		case Pawn:
			dr, start, last := 1, 1, 6
			if !p.White {
				dr, start, last = -1, 6, 1
			}
			add := func(to int) {
				if r == last {
					for pr := Queen; pr >= Knight; pr-- {
						ms = append(ms, Move{from, to, pr})
					}
				} else {
					ms = append(ms, Move{from, to, 0})
				}
			}
			if on(f, r+dr) && p.Sq[(r+dr)*8+f] == 0 {
				add((r+dr)*8 + f)
				if r == start && p.Sq[(r+2*dr)*8+f] == 0 {
					ms = append(ms, Move{from, (r+2*dr)*8 + f, 0})
				}
			}
			for _, df := range []int{-1, 1} {
				if !on(f+df, r+dr) {
					continue
				}
				to := (r+dr)*8 + f + df
				t := p.Sq[to]
				if t != 0 && (t > 0) != p.White {
					add(to)
				} else if t == 0 && to == p.EP && p.EP >= 0 {
					ms = append(ms, Move{from, to, 0})
				}
			}
		case Knight:
			for _, d := range knightD {
				if on(f+d[0], r+d[1]) {
					to := (r+d[1])*8 + f + d[0]
					if t := p.Sq[to]; t == 0 || (t > 0) != p.White {
						ms = append(ms, Move{from, to, 0})
					}
				}
			}
		case King:
			for _, d := range kingD {
				if on(f+d[0], r+d[1]) {
					to := (r+d[1])*8 + f + d[0]
					if t := p.Sq[to]; t == 0 || (t > 0) != p.White {
						ms = append(ms, Move{from, to, 0})
					}
				}
			}
			home := 4
			ki, qi := WK, WQ
			if !p.White {
				home = 60
				ki, qi = BK, BQ
			}
			if from == home && !p.Attacked(home, !p.White) {
				if p.Castle[ki] && p.Sq[home+3] == s*Rook && p.Sq[home+1] == 0 && p.Sq[home+2] == 0 &&
					!p.Attacked(home+1, !p.White) && !p.Attacked(home+2, !p.White) {
					ms = append(ms, Move{home, home + 2, 0})
				}
				if p.Castle[qi] && p.Sq[home-4] == s*Rook && p.Sq[home-1] == 0 && p.Sq[home-2] == 0 && p.Sq[home-3] == 0 &&
					!p.Attacked(home-1, !p.White) && !p.Attacked(home-2, !p.White) {
					ms = append(ms, Move{home, home - 2, 0})
				}
			}
		default:
			var dirs [][2]int
			if k := kind(c); k == Bishop || k == Queen {
				dirs = append(dirs, diagD[:]...)
			}
			if k := kind(c); k == Rook || k == Queen {
				dirs = append(dirs, orthD[:]...)
			}
			for _, d := range dirs {
				for ff, rr := f+d[0], r+d[1]; on(ff, rr); ff, rr = ff+d[0], rr+d[1] {
					to := rr*8 + ff
					t := p.Sq[to]
					if t == 0 {
						ms = append(ms, Move{from, to, 0})
						continue
					}
					if (t > 0) != p.White {
						ms = append(ms, Move{from, to, 0})
					}
					break
				}
			}
		}
	}
	return ms
}

// IsCastle reports whether m is a castling move in p.
func (p *Pos) IsCastle(m Move) bool {
	return kind(p.Sq[m.From]) == King && abs(m.From-m.To) == 2 && m.From/8 == m.To/8
}

// IsEP reports whether m is an en-passant capture in p.
func (p *Pos) IsEP(m Move) bool {
	return kind(p.Sq[m.From]) == Pawn && m.From%8 != m.To%8 && p.Sq[m.To] == 0
}

// IsCapture reports whether m captures something (including en passant).
func (p *Pos) IsCapture(m Move) bool { return p.Sq[m.To] != 0 || p.IsEP(m) }

// Make plays m (assumed pseudo-legal) and returns the successor. The
// en-passant target is set after every double pawn push (the "raw" policy);
// use NormEP for the engine's "only when capturable" policy.
func (p *Pos) Make(m Move) Pos {
	n := *p
	c := p.Sq[m.From]
	k := kind(c)
	capture := p.Sq[m.To] != 0
	n.Sq[m.From] = 0
	if p.IsEP(m) {
		n.Sq[(m.From/8)*8+m.To%8] = 0
		capture = true
	}
	if m.Promo != 0 {
		n.Sq[m.To] = sign(p.White) * int8(m.Promo)
	} else {
		n.Sq[m.To] = c
	}
	if p.IsCastle(m) {
		if m.To > m.From {
			n.Sq[m.From+1] = n.Sq[m.From+3]
			n.Sq[m.From+3] = 0
		} else {
			n.Sq[m.From-1] = n.Sq[m.From-4]
			n.Sq[m.From-4] = 0
		}
	}
	if k == King {
		if p.White {
			n.Castle[WK], n.Castle[WQ] = false, false
		} else {
			n.Castle[BK], n.Castle[BQ] = false, false
		}
	}
	for _, sq := range []int{m.From, m.To} {
		switch sq {
		case 0:
			n.Castle[WQ] = false
		case 7:
			n.Castle[WK] = false
		case 56:
			n.Castle[BQ] = false
		case 63:
			n.Castle[BK] = false
		}
	}
	n.EP = -1
	if k == Pawn && abs(m.From-m.To) == 16 {
		n.EP = (m.From + m.To) / 2
	}
	if k == Pawn || capture {
		n.Half = 0
	} else {
		n.Half = p.Half + 1
	}
	if !p.White {
		n.Full = p.Full + 1
	}
	n.White = !p.White
	return n
}

// Legal lists the legal moves of p.
func (p *Pos) Legal() []Move {
	var res []Move
	for _, m := range p.Pseudo() {
		n := p.Make(m)
		if !n.InCheck(p.White) {
			res = append(res, m)
		}
	}
	return res
}

// EPCapturable reports whether p has an en-passant target and at least one
// legal en-passant capture onto it.
func (p *Pos) EPCapturable() bool {
	if p.EP < 0 {
		return false
	}
	for _, m := range p.Pseudo() {
		if m.To == p.EP && p.IsEP(m) {
			n := p.Make(m)
			if !n.InCheck(p.White) {
				return true
			}
		}
	}
	return false
}

// NormEP returns p with the en-passant target removed unless a legal
// en-passant capture exists (the engine's documented convention).
func (p Pos) NormEP() Pos {
	if p.EP >= 0 && !p.EPCapturable() {
		p.EP = -1
	}
	return p
}

// Perft counts leaf nodes of the legal move tree.
func (p *Pos) Perft(d int) int {
	if d == 0 {
		return 1
	}
	ms := p.Legal()
	if d == 1 {
		return len(ms)
	}
	n := 0
	for _, m := range ms {
		c := p.Make(m)
		n += c.Perft(d - 1)
	}
	return n
}

const pieceLetters = "?PNBRQK"

// FEN prints p.
func (p *Pos) FEN() string {
	var sb strings.Builder
	for r := 7; r >= 0; r-- {
		empty := 0
		for f := 0; f < 8; f++ {
			c := p.Sq[r*8+f]
			if c == 0 {
				empty++
				continue
			}
			if empty > 0 {
				sb.WriteString(strconv.Itoa(empty))
				empty = 0
			}
			l := pieceLetters[kind(c)]
			if c < 0 {
				l += 'a' - 'A'
			}
			sb.WriteByte(l)
		}
		if empty > 0 {
			sb.WriteString(strconv.Itoa(empty))
		}
		if r > 0 {
			sb.WriteByte('/')
		}
	}
	if p.White {
		sb.WriteString(" w ")
	} else {
		sb.WriteString(" b ")
	}
	any := false
	for i, ch := range "KQkq" {
		if p.Castle[i] {
			sb.WriteRune(ch)
			any = true
		}
	}
	if !any {
		sb.WriteByte('-')
	}
	sb.WriteByte(' ')
	if p.EP < 0 {
		sb.WriteByte('-')
	} else {
		sb.WriteString(SqName(p.EP))
	}
	fmt.Fprintf(&sb, " %d %d", p.Half, p.Full)
	return sb.String()
}

// ParseFEN reads a standard six field FEN (strict).
func ParseFEN(s string) (Pos, error) {
	var p Pos
	p.EP = -1
	fs := strings.Fields(s)
	if len(fs) != 6 {
		return p, fmt.Errorf("want 6 fields, got %d", len(fs))
	}
	ranks := strings.Split(fs[0], "/")
	if len(ranks) != 8 {
		return p, fmt.Errorf("want 8 ranks")
	}
	for i, rk := range ranks {
		r := 7 - i
		f := 0
		for _, ch := range rk {
			switch {
			case ch >= '1' && ch <= '8':
				f += int(ch - '0')
			default:
				ix := strings.IndexRune(pieceLetters, ch&^0x20)
				if ix < 1 || f > 7 {
					return p, fmt.Errorf("bad rank %q", rk)
				}
				c := int8(ix)
				if ch >= 'a' {
					c = -c
				}
				p.Sq[r*8+f] = c
				f++
			}
		}
		if f != 8 {
			return p, fmt.Errorf("bad rank length %q", rk)
		}
	}
	switch fs[1] {
	case "w":
		p.White = true
	case "b":
	default:
		return p, fmt.Errorf("bad stm")
	}
	if fs[2] != "-" {
		for _, ch := range fs[2] {
			ix := strings.IndexRune("KQkq", ch)
			if ix < 0 {
				return p, fmt.Errorf("bad castle")
			}
			p.Castle[ix] = true
		}
	}
	if fs[3] != "-" {
		if len(fs[3]) != 2 || fs[3][0] < 'a' || fs[3][0] > 'h' || fs[3][1] < '1' || fs[3][1] > '8' {
			return p, fmt.Errorf("bad ep")
		}
		p.EP = int(fs[3][0]-'a') + 8*int(fs[3][1]-'1')
	}
	var err error
	if p.Half, err = strconv.Atoi(fs[4]); err != nil {
		return p, err
	}
	if p.Full, err = strconv.Atoi(fs[5]); err != nil {
		return p, err
	}
	return p, nil
}

// MustFEN parses s or panics.
func MustFEN(s string) Pos {
	p, err := ParseFEN(s)
	if err != nil {
		panic(fmt.Sprintf("refchess: %v: %q", err, s))
	}
	return p
}

// Valid reports whether p is a valid position in the sense of the listed
// properties: one king per side, no pawns on ranks 1/8, material reachable by
// promotion (same-coloured bishop pairs count as promoted), side not to move not in check, at most a double
// check and then with a slider (nothing else is reachable), castling rights only with king and
// rook at home, en-passant target only directly behind a pawn that could just
// have double pushed (target and origin squares empty), clocks in range.
func (p *Pos) Valid() error {
	var cnt [2][7]int
	for sq, c := range p.Sq {
		if c == 0 {
			continue
		}
		if kind(c) > King {
			return fmt.Errorf("bad piece code")
		}
		side := 0
		if c < 0 {
			side = 1
		}
		cnt[side][kind(c)]++
		if kind(c) == Pawn && (sq/8 == 0 || sq/8 == 7) {
			return fmt.Errorf("pawn on back rank")
		}
	}
	for side := 0; side < 2; side++ {
		if cnt[side][King] != 1 {
			return fmt.Errorf("king count")
		}
		// bishops beyond one per square colour are promoted ones too
		var onColour [2]int
		for sq, c := range p.Sq {
			if kind(c) == Bishop && (c < 0) == (side == 1) {
				onColour[(sq/8+sq%8)%2]++
			}
		}
		extra := max(0, cnt[side][Knight]-2) + max(0, onColour[0]-1) + max(0, onColour[1]-1) + max(0, cnt[side][Rook]-2) + max(0, cnt[side][Queen]-1)
		if cnt[side][Pawn]+extra > 8 {
			return fmt.Errorf("material not reachable")
		}
	}
	if p.InCheck(!p.White) {
		return fmt.Errorf("side not to move in check")
	}
	// no move gives more than a double check, and a double check needs a discovered slider
	if ch := p.AttackersOf(p.KingSq(p.White), !p.White); len(ch) > 2 {
		return fmt.Errorf("more than two checkers")
	} else if len(ch) == 2 {
		slider := false
		for _, sq := range ch {
			if k := kind(p.Sq[sq]); k == Bishop || k == Rook || k == Queen {
				slider = true
			}
		}
		if !slider {
			return fmt.Errorf("double check without a slider")
		}
	}
	if p.Castle[WK] && (p.Sq[4] != King || p.Sq[7] != Rook) {
		return fmt.Errorf("castle K")
	}
	if p.Castle[WQ] && (p.Sq[4] != King || p.Sq[0] != Rook) {
		return fmt.Errorf("castle Q")
	}
	if p.Castle[BK] && (p.Sq[60] != -King || p.Sq[63] != -Rook) {
		return fmt.Errorf("castle k")
	}
	if p.Castle[BQ] && (p.Sq[60] != -King || p.Sq[56] != -Rook) {
		return fmt.Errorf("castle q")
	}
	if p.EP >= 0 {
		// white to move => black just pushed: target on rank 6 (index 5), pawn on rank 5 (index 4), origin rank 7 (index 6)
		tr, pr, or, pawn := 5, 4, 6, int8(-Pawn)
		if !p.White {
			tr, pr, or, pawn = 2, 3, 1, int8(Pawn)
		}
		f := p.EP % 8
		if p.EP/8 != tr || p.Sq[pr*8+f] != pawn || p.Sq[tr*8+f] != 0 || p.Sq[or*8+f] != 0 {
			return fmt.Errorf("ep target impossible")
		}
	}
	if p.Half < 0 || p.Half > 100 || p.Full < 1 {
		return fmt.Errorf("clocks")
	}
	return nil
}

// Key identifies the position for repetition purposes: placement, side to
// move, rights and en-passant capturability.
func (p *Pos) Key() string {
	n := p.NormEP()
	var sb strings.Builder
	for _, c := range n.Sq {
		sb.WriteByte(byte(c + 16))
	}
	if n.White {
		sb.WriteByte('w')
	} else {
		sb.WriteByte('b')
	}
	for _, c := range n.Castle {
		if c {
			sb.WriteByte('1')
		} else {
			sb.WriteByte('0')
		}
	}
	sb.WriteByte(byte(n.EP + 1))
	return sb.String()
}

// SortMoves orders moves by encoding (for stable output).
func SortMoves(ms []Move) {
	sort.Slice(ms, func(i, j int) bool { return ms[i].Enc() < ms[j].Enc() })
}

// ParseMove reads a move in UCI notation.
func ParseMove(s string) (Move, error) {
	if len(s) != 4 && len(s) != 5 {
		return Move{}, fmt.Errorf("bad move %q", s)
	}
	for i := 0; i < 4; i += 2 {
		if s[i] < 'a' || s[i] > 'h' || s[i+1] < '1' || s[i+1] > '8' {
			return Move{}, fmt.Errorf("bad move %q", s)
		}
	}
	m := Move{From: int(s[0]-'a') + 8*int(s[1]-'1'), To: int(s[2]-'a') + 8*int(s[3]-'1')}
	if len(s) == 5 {
		ix := strings.IndexByte("nbrq", s[4])
		if ix < 0 {
			return Move{}, fmt.Errorf("bad move %q", s)
		}
		m.Promo = Knight + ix
	}
	return m, nil
}

// Final reports whether the game is over in p by rule (no legal move or half move clock >= 100).
func (p *Pos) NoLegal() bool { return len(p.Legal()) == 0 }
