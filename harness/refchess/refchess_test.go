package refchess

import "testing"

func TestSelf(t *testing.T) {
	if err := SelfTest("/repo/debug/standard.epd", 3); err != nil {
		t.Fatal(err)
	}
}

func TestSuiteCount(t *testing.T) {
	if n := len(SuiteFENs("/repo/debug/standard.epd")); n < 100 {
		t.Fatalf("only %d suite fens", n)
	}
}
