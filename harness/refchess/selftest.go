package refchess

import (
	"bufio"
	"fmt"
	"os"
	"strconv"
	"strings"
)

var published = []struct {
	fen    string
	counts []int
}{
	{"rnbqkbnr/pppppppp/8/8/8/8/PPPPPPPP/RNBQKBNR w KQkq - 0 1", []int{20, 400, 8902, 197281}},
	{"r3k2r/p1ppqpb1/bn2pnp1/3PN3/1p2P3/2N2Q1p/PPPBBPPP/R3K2R w KQkq - 0 1", []int{48, 2039, 97862}},
	{"8/2p5/3p4/KP5r/1R3p1k/8/4P1P1/8 w - - 0 1", []int{14, 191, 2812, 43238}},
	{"r3k2r/Pppp1ppp/1b3nbN/nP6/BBP1P3/q4N2/Pp1P2PP/R2Q1RK1 w kq - 0 1", []int{6, 264, 9467}},
	{"rnbq1k1r/pp1Pbppp/2p5/8/2B5/8/PPP1NnPP/RNBQK2R w KQ - 1 8", []int{44, 1486, 62379}},
	{"r4rk1/1pp1qppp/p1np1n2/2b1p1B1/2B1P1b1/P1NP1N2/1PP1QPPP/R4RK1 w - - 0 10", []int{46, 2079, 89890}},
}

// SelfTest validates the reference against published perft numbers. With
// epdPath non-empty it additionally checks every D1..maxD entry of the
// repository's perft suite file. The suite file is data (published counts),
// not engine code.
func SelfTest(epdPath string, maxD int) error {
	for _, pc := range published {
		p := MustFEN(pc.fen)
		for d, want := range pc.counts {
			if got := p.Perft(d + 1); got != want {
				return fmt.Errorf("refchess self-test: perft(%d) of %q = %d, want %d", d+1, pc.fen, got, want)
			}
		}
	}
	if epdPath == "" {
		return nil
	}
	f, err := os.Open(epdPath)
	if err != nil {
		return nil // optional data
	}
	defer f.Close()
	sc := bufio.NewScanner(f)
	for sc.Scan() {
		parts := strings.Split(sc.Text(), " ;")
		if len(parts) < 2 {
			continue
		}
		p, err := ParseFEN(parts[0])
		if err != nil {
			return fmt.Errorf("refchess self-test: cannot parse suite fen %q: %v", parts[0], err)
		}
		for _, ds := range parts[1:] {
			fs := strings.Fields(ds)
			if len(fs) != 2 || fs[0][0] != 'D' {
				continue
			}
			d, _ := strconv.Atoi(fs[0][1:])
			want, _ := strconv.Atoi(fs[1])
			if d > maxD {
				continue
			}
			if got := p.Perft(d); got != want {
				return fmt.Errorf("refchess self-test: perft(%d) of %q = %d, want %d", d, parts[0], got, want)
			}
		}
	}
	return nil
}

// SuiteFENs returns the root FENs of the repository's perft suite file (data only).
func SuiteFENs(epdPath string) []string {
	f, err := os.Open(epdPath)
	if err != nil {
		return nil
	}
	defer f.Close()
	var res []string
	sc := bufio.NewScanner(f)
	for sc.Scan() {
		parts := strings.Split(sc.Text(), " ;")
		if len(parts) < 2 {
			continue
		}
		if _, err := ParseFEN(parts[0]); err == nil {
			res = append(res, parts[0])
		}
	}
	return res
}
