// Package srch runs engine searches with captured output and parses the info lines.
package srch

import (
	"bytes"
	"fmt"
	"regexp"
	"strconv"
	"strings"
	"time"

	"github.com/paulsonkoly/chess-3/board"
	"github.com/paulsonkoly/chess-3/chess"
	"github.com/paulsonkoly/chess-3/move"
	"github.com/paulsonkoly/chess-3/search"
)

// Info is one parsed output line of a search.
type Info struct {
	Raw      string
	Abort    bool // the trailing "info depth D nodes N" line written on abort
	Depth    int
	Score    string
	Nodes    int
	Time     int
	HashFull int
	PV       []string
}

// Result is everything observable about one search.Go call.
type Result struct {
	Score   chess.Score
	Move    move.Move
	Ponder  move.Move
	Nodes   int
	Raw     string
	Lines   []Info
	BadLine string // first line that does not match the documented grammar
	LateHit bool   // RunPonder only: the ponderhit had to be sent by the watchdog (timing then depends on the clock)
}

var abortLn = regexp.MustCompile(`^info depth (\d+) nodes (\d+)$`)
var moveTok = regexp.MustCompile(`^[a-h][1-8][a-h][1-8][nbrq]?$`)

// Parse parses search output. It is deliberately tolerant: an info line may carry any fields in any
// order (a maintainer may add nps, seldepth, ...); only the fields the properties talk about are read:
// depth, nodes and pv (plus score, time, hashfull when present). A line is reported as bad only if it is
// an info line whose depth / nodes value is not a number or whose pv holds something that is not a move.
func Parse(raw string) ([]Info, string) {
	var res []Info
	bad := ""
	text := strings.TrimSuffix(raw, "\n")
	if text == "" {
		return nil, ""
	}
	for _, ln := range strings.Split(text, "\n") {
		if m := abortLn.FindStringSubmatch(ln); m != nil {
			d, _ := strconv.Atoi(m[1])
			n, _ := strconv.Atoi(m[2])
			res = append(res, Info{Raw: ln, Abort: true, Depth: d, Nodes: n})
			continue
		}
		fs := strings.Fields(ln)
		if len(fs) == 0 || fs[0] != "info" {
			continue // not an info line: none of our business here
		}
		in := Info{Raw: ln, Depth: -1, Nodes: -1}
		hasPV := false
		okLine := true
		for i := 1; i < len(fs); i++ {
			num := func() int {
				if i+1 >= len(fs) {
					okLine = false
					return 0
				}
				v, err := strconv.Atoi(fs[i+1])
				if err != nil {
					okLine = false
				}
				i++
				return v
			}
			switch fs[i] {
			case "depth":
				in.Depth = num()
			case "nodes":
				in.Nodes = num()
			case "time":
				in.Time = num()
			case "hashfull":
				in.HashFull = num()
			case "score":
				if i+2 < len(fs) {
					in.Score = fs[i+1] + " " + fs[i+2]
					i += 2
				}
			case "string":
				i = len(fs)
			case "pv":
				hasPV = true
				for _, t := range fs[i+1:] {
					if !moveTok.MatchString(t) {
						okLine = false
					}
					in.PV = append(in.PV, t)
				}
				i = len(fs)
			}
		}
		if !okLine {
			if bad == "" {
				bad = ln
			}
			continue
		}
		if !hasPV || in.Depth < 0 || in.Nodes < 0 {
			continue // an info line without the fields the properties are about
		}
		res = append(res, in)
	}
	return res, bad
}

// Run performs one search with captured output (nil output when quiet is set).
func Run(s *search.Search, b *board.Board, quiet bool, opts ...search.Option) Result {
	var buf bytes.Buffer
	cnt := search.Counters{}
	all := append([]search.Option{}, opts...)
	all = append(all, search.WithCounters(&cnt))
	if quiet {
		all = append(all, search.WithOutput(nil))
	} else {
		all = append(all, search.WithOutput(&buf))
	}
	sc, m, p := s.Go(b, all...)
	r := Result{Score: sc, Move: m, Ponder: p, Nodes: cnt.Nodes, Raw: buf.String()}
	r.Lines, r.BadLine = Parse(r.Raw)
	return r
}

// MaskTime returns the raw output with the time field blanked (wall clock is not part of the result).
func MaskTime(raw string) string {
	return regexp.MustCompile(` time \d+ `).ReplaceAllString(raw, " time _ ")
}

// Describe summarises a result.
func (r Result) Describe() string {
	return fmt.Sprintf("score=%v move=%v ponder=%v nodes=%d", r.Score, r.Move, r.Ponder, r.Nodes)
}

// RunPlain performs one search the way the UCI driver does: no Counters option is passed; the
// node count is read from the last output line.
func RunPlain(s *search.Search, b *board.Board, opts ...search.Option) Result {
	var buf bytes.Buffer
	all := append([]search.Option{}, opts...)
	all = append(all, search.WithOutput(&buf))
	sc, m, p := s.Go(b, all...)
	r := Result{Score: sc, Move: m, Ponder: p, Raw: buf.String()}
	r.Lines, r.BadLine = Parse(r.Raw)
	for _, l := range r.Lines {
		if l.Nodes > r.Nodes {
			r.Nodes = l.Nodes
		}
	}
	return r
}

// hitWriter sends the ponderhit from inside the write of info line number `after` (counted from 0), so that
// the moment of the ponderhit is a function of the search's own progress and not of the scheduler.
type hitWriter struct {
	buf   bytes.Buffer
	after int
	seen  int
	ch    chan time.Time
}

func (w *hitWriter) Write(p []byte) (int, error) {
	if w.seen == w.after {
		select {
		case w.ch <- time.Now():
		default:
		}
	}
	w.seen++
	return w.buf.Write(p)
}

// RunPonder performs a ponder search (limits are ignored until the ponderhit) whose ponderhit arrives while
// info line number hitAfter is being written.
func RunPonder(s *search.Search, b *board.Board, hitAfter int, opts ...search.Option) Result {
	w := &hitWriter{after: hitAfter, ch: make(chan time.Time, 1)}
	cnt := search.Counters{}
	all := append([]search.Option{}, opts...)
	all = append(all, search.WithCounters(&cnt), search.WithOutput(w), search.WithPonderHit(w.ch))
	// safety net: an engine that writes fewer lines than expected while pondering would never get its ponderhit
	done := make(chan struct{})
	late := make(chan bool, 1)
	go func() {
		select {
		case <-done:
			late <- false
		case <-time.After(10 * time.Second):
			select {
			case w.ch <- time.Now():
			default:
			}
			late <- true
		}
	}()
	sc, m, p := s.Go(b, all...)
	close(done)
	r := Result{Score: sc, Move: m, Ponder: p, Nodes: cnt.Nodes, Raw: w.buf.String(), LateHit: <-late}
	r.Lines, r.BadLine = Parse(r.Raw)
	return r
}
