// C11 (tuner entry) - epd.Parse never crashes on arbitrary bytes.
// In-package test for tools/tuner/epd, injected into a scratch copy of the package by /verif/run.
package epd

import (
	"bytes"
	"encoding/json"
	"fmt"
	"testing"

	"github.com/paulsonkoly/chess-3/board"
	"pgregory.net/rapid"

	"verif/evid"
	"verif/gen"
)

// Case is one raw line.
type Case struct {
	Kind string `json:"kind"`
	Raw  []byte `json:"raw"`
}

func parseCase(c Case, rec *evid.Rec) (err error) {
	defer func() {
		if r := recover(); r != nil {
			err = fmt.Errorf("epd.Parse panics on %q: %v", c.Raw, r)
		}
	}()
	var b board.Board
	res := -1.0
	e := Parse(c.Raw, &b, &res)
	if rec != nil {
		rec.Eval(1)
	}
	if e != nil {
		return nil
	}
	// an accepted line: whatever was read must print without crashing, and when the text in front of the last
	// ';' is a FEN the reader accepts, both must have read the same position (how the result part is spelled and
	// where the line is split is the parser's business)
	got := b.FEN()
	if k := bytes.LastIndexByte(c.Raw, ';'); k >= 0 {
		var ref board.Board
		if e2 := board.ParseFEN(&ref, bytes.TrimSpace(c.Raw[:k])); e2 == nil && ref.FEN() != got {
			return fmt.Errorf("epd.Parse(%q) reads %q, the FEN reader %q", c.Raw, got, ref.FEN())
		}
	}
	if rec != nil {
		rec.Class("epd_line_accepted")
		rec.NT(evid.H("epd", string(c.Raw)))
	}
	return nil
}

func TestC11(t *testing.T) {
	evid.Main(t, "C11", func(rec *evid.Rec) {
		rec.Rapid(t, "epd_parse", evid.Pick(100000, 2000000), func(t *rapid.T) {
			r, _ := gen.Root(t)
			line := []byte(r.FEN() + []string{"; 1.0", "; 0.5", "; 0.0", "; 2.0", ";1.0", " 1.0", "", "; 0.5 "}[gen.Draw(t, 0, 7, "tail")])
			switch gen.Draw(t, 0, 6, "mut") {
			case 0:
				line = line[:gen.Draw(t, 0, len(line), "cut")]
			case 1:
				line[gen.Draw(t, 0, len(line)-1, "pos")] = byte(gen.Draw(t, 0, 255, "b"))
			case 2:
				line = line[gen.Draw(t, 0, len(line), "from"):]
			case 3:
				line = rapid.SliceOfN(rapid.Byte(), 0, 12).Draw(t, "raw")
			case 4:
				i := gen.Draw(t, 0, len(line)-1, "pos")
				line = append(line[:i:i], line[i+1:]...)
			}
			c := Case{Kind: "epd", Raw: line}
			if rec.WantSample("epd_parse") {
				rec.Sample("epd_parse", map[string]string{"raw": string(line)})
			}
			if err := parseCase(c, rec); err != nil {
				rec.Fail("epd_parse", err.Error(), c)
				t.Fatalf("%v", err)
			}
		})
	}, func(check string, raw json.RawMessage) error {
		var c Case
		if err := json.Unmarshal(raw, &c); err != nil {
			return err
		}
		return parseCase(c, nil)
	})
}
