// C19 - the tuner optimises the same evaluation the engine plays with.
// In-package test for tools/tuner/tuning, injected into a scratch copy of the package by /verif/run.
package tuning

import (
	"encoding/json"
	"fmt"
	"math"
	"reflect"
	"slices"
	"testing"

	"github.com/paulsonkoly/chess-3/board"
	"github.com/paulsonkoly/chess-3/chess"
	"github.com/paulsonkoly/chess-3/eval"
	"pgregory.net/rapid"

	"verif/evid"
	"verif/gen"
	"verif/refchess"
)

// Case: Kind "eval" (FEN) or "vector" (Targets + Seed for the values).
type Case struct {
	Kind    string   `json:"kind"`
	FEN     string   `json:"fen,omitempty"`
	Targets []string `json:"targets,omitempty"`
	Seed    int      `json:"seed,omitempty"`
}

const envelope = 2.25

func evalCase(c Case, rec *evid.Rec) error {
	var b board.Board
	if err := board.ParseFEN(&b, []byte(c.FEN)); err != nil {
		return fmt.Errorf("ParseFEN rejects valid FEN %q: %v", c.FEN, err)
	}
	rep := EngineCoeffs()
	f := rep.Eval(&b)
	i := float64(eval.Eval(&b, &eval.Coefficients))
	if b.STM == chess.Black {
		i = -i
	}
	if rec != nil {
		rec.Eval(1)
		p := refchess.MustFEN(c.FEN)
		phase := 0
		heavyNearKing := false
		for sq, pc := range p.Sq {
			k := pc
			if k < 0 {
				k = -k
			}
			if k >= refchess.Knight && k <= refchess.Queen {
				phase += eval.Phase[k]
			}
			_ = sq
		}
		for _, white := range []bool{true, false} {
			ks := p.KingSq(!white)
			for d := 0; d < 9; d++ {
				f, r := ks%8+d%3-1, ks/8+d/3-1
				if f < 0 || f > 7 || r < 0 || r > 7 {
					continue
				}
				for _, a := range p.AttackersOf(r*8+f, white) {
					k := p.Sq[a]
					if k < 0 {
						k = -k
					}
					if k >= refchess.Knight && k <= refchess.Queen {
						heavyNearKing = true
					}
				}
			}
		}
		if phase > 0 && phase < eval.MaxPhase && heavyNearKing && !eval.KNBvK(&b) && i != 0 {
			rec.Class("taper_and_king_attack_active")
			rec.NT(evid.HS(c.FEN))
		}
		if d := math.Abs(f - i); d > 1.0 {
			rec.Class("difference>1.0")
		}
	}
	if d := math.Abs(f - i); !(d < envelope) {
		return fmt.Errorf("tuner evaluation %.4f vs engine evaluation %.0f (white relative) differ by %.4f >= %.2f for %s", f, i, d, envelope, c.FEN)
	}
	return nil
}

// fieldNames lists the coefficient fields in declaration order.
func fieldNames() []string {
	t := reflect.TypeOf(eval.CoeffSet[float64]{})
	var res []string
	for i := 0; i < t.NumField(); i++ {
		res = append(res, t.Field(i).Name)
	}
	return res
}

// walk is the harness' own flattening: declaration order of the fields, row-major within arrays.
func walk(v reflect.Value, visit func(p *float64)) {
	switch v.Kind() {
	case reflect.Float64:
		visit(v.Addr().Interface().(*float64))
	case reflect.Array:
		for i := 0; i < v.Len(); i++ {
			walk(v.Index(i), visit)
		}
	case reflect.Struct:
		for i := 0; i < v.NumField(); i++ {
			walk(v.Field(i), visit)
		}
	}
}

func flat(e *EngineRep, targets []string) []*float64 {
	var res []*float64
	v := reflect.ValueOf((*eval.CoeffSet[float64])(e)).Elem()
	t := v.Type()
	for i := 0; i < t.NumField(); i++ {
		if slices.Contains(targets, t.Field(i).Name) {
			walk(v.Field(i), func(p *float64) { res = append(res, p) })
		}
	}
	return res
}

func vectorCase(c Case, rec *evid.Rec) error {
	all := fieldNames()
	T := c.Targets
	n := len(NullVector(T).VectorToSlice())
	var e EngineRep = EngineCoeffs()
	before := e
	want := len(flat(&e, T))
	if n != want {
		return fmt.Errorf("NullVector(%v) has %d elements, the selected fields hold %d coefficients", T, n, want)
	}
	// distinct values everywhere so that any mix-up shows
	vals := make([]float64, n)
	for i := range vals {
		vals[i] = float64(c.Seed%1000) + float64(i)*1.5 + 0.25
	}
	e.SetVector(VectorFromSlice(slices.Clone(vals)), T)
	got := e.ToVector(T).VectorToSlice()
	if !slices.Equal(got, vals) {
		return fmt.Errorf("ToVector(SetVector(v)) != v for targets %v (first difference at %d)", T, firstDiff(got, vals))
	}
	// bijection: the harness' own walker over the selected fields must find every value of the vector exactly
	// once (which index lands on which coefficient is the mapping's own business: the property asks that reading,
	// writing and iterating agree, not for a particular order)
	seen := map[float64]int{}
	for _, p := range flat(&e, T) {
		seen[*p]++
	}
	for i, v := range vals {
		if seen[v] != 1 {
			return fmt.Errorf("targets %v: vector element %d was written to %d coefficients of the selected fields (every element must land on exactly one)", T, i, seen[v])
		}
	}
	// fields outside T untouched
	var others []string
	for _, f := range all {
		if !slices.Contains(T, f) {
			others = append(others, f)
		}
	}
	if !slices.Equal(e.ToVector(others).VectorToSlice(), before.ToVector(others).VectorToSlice()) {
		return fmt.Errorf("SetVector with targets %v changed a coefficient outside the targets", T)
	}
	bf, ef := flat(&before, others), flat(&e, others)
	for i := range bf {
		if *bf[i] != *ef[i] {
			return fmt.Errorf("SetVector with targets %v changed a coefficient outside the targets", T)
		}
	}
	// TunedParams: indices in order, pointer i addresses element i (iterator obtained afresh, as the client does)
	next := 0
	for i, ptr := range e.TunedParams(T) {
		if i != next {
			return fmt.Errorf("TunedParams(%v) yields index %d where %d is expected", T, i, next)
		}
		next++
		if i >= n {
			return fmt.Errorf("TunedParams(%v) yields more than %d parameters", T, n)
		}
		old := *ptr
		if old != vals[i] {
			return fmt.Errorf("TunedParams(%v): pointer %d reads %v, vector element %d is %v", T, i, old, i, vals[i])
		}
		*ptr = -12345.5
		now := e.ToVector(T).VectorToSlice()
		for j := range now {
			w := vals[j]
			if j == i {
				w = -12345.5
			}
			if now[j] != w {
				return fmt.Errorf("TunedParams(%v): writing through pointer %d changed vector element %d", T, i, j)
			}
		}
		*ptr = old
	}
	if next != n {
		return fmt.Errorf("TunedParams(%v) yields %d parameters, the vector has %d", T, next, n)
	}
	if rec != nil {
		rec.Eval(1)
		if len(T) >= 2 && len(T) < len(all) {
			rec.Class("proper_subset_size>=2")
			rec.NT(evid.H("vec", T))
		}
	}
	return nil
}

func firstDiff(a, b []float64) int {
	for i := range a {
		if i >= len(b) || a[i] != b[i] {
			return i
		}
	}
	return len(a)
}

// coeffsCase: EngineCoeffs() equals eval.Coefficients element-wise.
func coeffsCase() error {
	rep := EngineCoeffs()
	var fl []float64
	walk(reflect.ValueOf((*eval.CoeffSet[float64])(&rep)).Elem(), func(p *float64) { fl = append(fl, *p) })
	var in []float64
	var wi func(v reflect.Value)
	wi = func(v reflect.Value) {
		switch v.Kind() {
		case reflect.Struct:
			for i := 0; i < v.NumField(); i++ {
				wi(v.Field(i))
			}
		case reflect.Array:
			for i := 0; i < v.Len(); i++ {
				wi(v.Index(i))
			}
		default:
			in = append(in, float64(v.Int()))
		}
	}
	wi(reflect.ValueOf(eval.Coefficients))
	if !slices.Equal(fl, in) {
		return fmt.Errorf("EngineCoeffs() differs from eval.Coefficients at flat index %d (of %d / %d)", firstDiff(fl, in), len(fl), len(in))
	}
	if len(fl) < 100 {
		return fmt.Errorf("EngineCoeffs() holds only %d coefficients", len(fl))
	}
	return nil
}

func checkCase(c Case, rec *evid.Rec) (err error) {
	defer func() {
		if r := recover(); r != nil {
			err = fmt.Errorf("panic: %v", r)
		}
	}()
	switch c.Kind {
	case "eval":
		return evalCase(c, rec)
	case "vector":
		return vectorCase(c, rec)
	case "coeffs":
		return coeffsCase()
	}
	return fmt.Errorf("unknown kind")
}

func TestC19(t *testing.T) {
	evid.Main(t, "C19", func(rec *evid.Rec) {
		rec.Rule("scratch copy of tools/tuner/tuning built from the working tree. Eval agreement: positions from suite/bench/synthetic (promoted material, minor-piece endings) / motif roots and playouts, clocks 0..100, loaded with board.ParseFEN (no hash, as the tuner does): |EngineRep.Eval with EngineCoeffs() - white-relative eval.Eval[Score]| < 2.25. Vector mapping: every drawn subset of the CoeffSet field names (by reflection) x distinct values: ToVector(SetVector(v)) == v, the harness' own reflective walker finds every element exactly once among the selected fields (a bijection, whatever its order), fields outside the targets untouched, TunedParams (fresh iterator) yields 0..len-1 in order and pointer i addresses exactly element i, lengths equal NullVector; EngineCoeffs() == eval.Coefficients element-wise. Non-trivial = position outside the special-case endings with 0 < phase < 24 and a piece bearing on the enemy king zone (taper and king-safety branches active); vector subsets of size 2..n-1; distinct by position / subset")
		rec.Assume("tuning, epd, checksum packages copied unchanged from /repo/tools/tuner into a scratch module (their other dependencies are not available offline)")
		if err := coeffsCase(); err != nil {
			rec.Violate("coeffs", err.Error(), Case{Kind: "coeffs"})
		}
		rec.Rapid(t, "eval", evid.Pick(150000, 3000000), func(t *rapid.T) {
			root, label := gen.Root(t)
			p := gen.Playout(t, root, 16, nil)
			if p.Half > 100 {
				p.Half = 100
			}
			if gen.Chance(t, 1, 4, "clock") {
				p.Half = gen.Draw(t, 0, 100, "half")
			}
			rec.Class("root_" + label)
			c := Case{Kind: "eval", FEN: p.FEN()}
			if rec.WantSample("eval") {
				rec.Sample("eval", c)
			}
			if err := checkCase(c, rec); err != nil {
				rec.Fail("eval", err.Error(), c)
				t.Fatalf("%v", err)
			}
		})
		rec.Rapid(t, "vector", evid.Pick(3000, 40000), func(t *rapid.T) {
			all := fieldNames()
			var T []string
			switch gen.Draw(t, 0, 5, "subsetKind") {
			case 0:
				T = slices.Clone(DefaultTargets)
			case 1:
				T = []string{all[gen.Draw(t, 0, len(all)-1, "one")]}
			default:
				for _, f := range all {
					if gen.Chance(t, 1, 2, f) {
						T = append(T, f)
					}
				}
				// the order of the target list must not matter
				if gen.Chance(t, 1, 2, "reverse") {
					slices.Reverse(T)
				}
			}
			c := Case{Kind: "vector", Targets: T, Seed: gen.Draw(t, 0, 999, "seed")}
			if rec.WantSample("vector") {
				rec.Sample("vector", c)
			}
			if err := checkCase(c, rec); err != nil {
				rec.Fail("vector", err.Error(), c)
				t.Fatalf("%v", err)
			}
		})
	}, func(check string, raw json.RawMessage) error {
		var c Case
		if err := json.Unmarshal(raw, &c); err != nil {
			return err
		}
		return checkCase(c, nil)
	})
}
