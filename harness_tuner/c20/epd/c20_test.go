// C20 - each training position is processed exactly once per tuning epoch.
// In-package test for tools/tuner/epd, injected into a scratch copy of the package by /verif/run.
package epd

import (
	"bytes"
	"encoding/json"
	"fmt"
	"io"
	"os"
	"path/filepath"
	"sort"
	"testing"

	"github.com/paulsonkoly/chess-3/tools/tuner/tuning"
	"pgregory.net/rapid"

	"verif/evid"
	"verif/gen"
)

// Case:
//
//	shuffle: N, Epoch - shuffleIndex(., N, Epoch) must be a permutation of 0..N-1
//	ranges:  N - Batches(N) and Chunks partition [0,N)
//	file:    a file described by Lines (length of each line; 0 = blank line), content derived from Seed;
//	         read through the chunks of the batches of epoch Epoch and through the sub-ranges given by Cuts
type Case struct {
	Kind  string `json:"kind"`
	N     int    `json:"n,omitempty"`
	Epoch uint64 `json:"epoch"`
	Lines []int  `json:"lines,omitempty"`
	Seed  int    `json:"seed,omitempty"`
	Cuts  []int  `json:"cuts,omitempty"`
	// big files are described by a rule instead of a list
	BigLines int `json:"big_lines,omitempty"`
	BigLen   int `json:"big_len,omitempty"`
}

func shuffleCase(n int, epoch uint64, seen []uint64) error {
	words := (n + 63) / 64
	for i := 0; i < words; i++ {
		seen[i] = 0
	}
	for i := 0; i < n; i++ {
		y := shuffleIndex(uint64(i), uint64(n), epoch)
		if y >= uint64(n) {
			return fmt.Errorf("shuffleIndex(%d, %d, %d) = %d is outside [0, %d)", i, n, epoch, y, n)
		}
		if seen[y/64]&(1<<(y%64)) != 0 {
			return fmt.Errorf("shuffleIndex(., %d, %d) is not a permutation: value %d is produced twice (second time for index %d)", n, epoch, y, i)
		}
		seen[y/64] |= 1 << (y % 64)
	}
	return nil
}

func rangesCase(n int) error {
	next := 0
	for b := range tuning.Batches(n) {
		if b.Start != next || b.End <= b.Start || b.End > n {
			return fmt.Errorf("Batches(%d): batch %+v does not continue the partition at %d", n, b, next)
		}
		cn := b.Start
		for c := range tuning.Chunks(b) {
			if c.Start != cn || c.End <= c.Start || c.End > b.End {
				return fmt.Errorf("Chunks(%+v): chunk %+v does not continue the partition at %d", b, c, cn)
			}
			cn = c.End
		}
		if cn != b.End {
			return fmt.Errorf("Chunks(%+v) cover up to %d only", b, cn)
		}
		next = b.End
	}
	if next != n {
		return fmt.Errorf("Batches(%d) cover up to %d only", n, next)
	}
	return nil
}

// content builds the file bytes and the list of non-blank lines.
func content(c Case) ([]byte, [][]byte) {
	var buf bytes.Buffer
	var lines [][]byte
	x := uint64(c.Seed)*0x9e3779b97f4a7c15 + 1
	next := func() byte {
		x ^= x << 13
		x ^= x >> 7
		x ^= x << 17
		b := byte(x>>24)%95 + 32
		return b
	}
	emit := func(l, ix int) {
		if l == 0 {
			buf.WriteByte('\n')
			return
		}
		line := make([]byte, l)
		for i := range line {
			line[i] = next()
		}
		// make lines distinguishable: a running number up front when there is room
		tag := fmt.Sprintf("%d;", ix)
		if len(tag) <= l {
			copy(line, tag)
		}
		if l >= 2 && ix%7 == 3 {
			line[l-1] = '\r' // carriage returns are ordinary bytes
		}
		lines = append(lines, line)
		buf.Write(line)
		buf.WriteByte('\n')
	}
	if c.BigLines > 0 {
		for i := 0; i < c.BigLines; i++ {
			l := c.BigLen
			if i%5 == 4 {
				l = 1 + (i*37)%c.BigLen
			}
			if i%1001 == 500 {
				emit(0, i)
			}
			emit(l, i)
		}
		return buf.Bytes(), lines
	}
	for i, l := range c.Lines {
		emit(l, i)
	}
	return buf.Bytes(), lines
}

func multiset(ls [][]byte) []string {
	r := make([]string, len(ls))
	for i, l := range ls {
		r[i] = string(l)
	}
	sort.Strings(r)
	return r
}

func sameMultiset(got, want []string) string {
	if len(got) != len(want) {
		return fmt.Sprintf("%d lines delivered, the file has %d non-blank lines", len(got), len(want))
	}
	for i := range got {
		if got[i] != want[i] {
			g, w := got[i], want[i]
			if len(g) > 60 {
				g = g[:60] + "..."
			}
			if len(w) > 60 {
				w = w[:60] + "..."
			}
			return fmt.Sprintf("delivered line %q is not a line of the file (expected %q at this rank)", g, w)
		}
	}
	return ""
}

func readAll(ch *Chunk) ([][]byte, error) {
	var res [][]byte
	for {
		l, err := ch.Read()
		if err == io.EOF {
			return res, nil
		}
		if err != nil {
			return res, err
		}
		res = append(res, bytes.Clone(l))
	}
}

func fileCase(c Case, rec *evid.Rec) (err error) {
	defer func() {
		if r := recover(); r != nil {
			err = fmt.Errorf("panic: %v", r)
		}
	}()
	data, want := content(c)
	dir, e := os.MkdirTemp("", "verif-c20-")
	if e != nil {
		return nil
	}
	defer os.RemoveAll(dir)
	fn := filepath.Join(dir, "data.epd")
	if e := os.WriteFile(fn, data, 0o644); e != nil {
		return nil
	}
	ck, e := NewChunker(fn)
	if e != nil {
		return fmt.Errorf("NewChunker fails on a file in the documented format: %v", e)
	}
	if ck.LineCount() != len(want) {
		return fmt.Errorf("LineCount() = %d, the file has %d non-blank lines", ck.LineCount(), len(want))
	}
	n := ck.LineCount()
	if n == 0 {
		return nil
	}
	wantSet := multiset(want)
	// (1) all chunks of all batches of the epoch
	var got [][]byte
	opens := 0
	for b := range tuning.Batches(n) {
		for r := range tuning.Chunks(b) {
			ch, e := ck.Open(int(c.Epoch), r.Start, r.End)
			if e != nil {
				return fmt.Errorf("Open(%d, %d, %d) on %d lines: %v", c.Epoch, r.Start, r.End, n, e)
			}
			ls, e := readAll(ch)
			if e != nil {
				ch.Close()
				return fmt.Errorf("Read in chunk [%d,%d): %v", r.Start, r.End, e)
			}
			if len(ls) != r.Len() {
				ch.Close()
				return fmt.Errorf("chunk [%d,%d) delivered %d lines", r.Start, r.End, len(ls))
			}
			if opens == 0 { // Rewind re-delivers the same
				if e := ch.Rewind(); e != nil {
					ch.Close()
					return fmt.Errorf("Rewind: %v", e)
				}
				again, _ := readAll(ch)
				if d := sameMultiset(multiset(again), multiset(ls)); d != "" {
					ch.Close()
					return fmt.Errorf("after Rewind the chunk [%d,%d) delivers something else: %s", r.Start, r.End, d)
				}
			}
			ch.Close()
			opens++
			got = append(got, ls...)
		}
	}
	if d := sameMultiset(multiset(got), wantSet); d != "" {
		return fmt.Errorf("epoch %d over all chunks of all batches (%d lines, %d chunks): %s", c.Epoch, n, opens, d)
	}
	// (2) arbitrary sub-ranges given by the cuts
	if len(c.Cuts) > 0 {
		cuts := []int{0}
		for _, x := range c.Cuts {
			cuts = append(cuts, x%(n+1))
		}
		cuts = append(cuts, n)
		sort.Ints(cuts)
		got = got[:0]
		for i := 0; i+1 < len(cuts); i++ {
			if cuts[i] == cuts[i+1] || cuts[i] > n-1 {
				continue
			}
			ch, e := ck.Open(int(c.Epoch), cuts[i], cuts[i+1])
			if e != nil {
				return fmt.Errorf("Open(%d, %d, %d) on %d lines: %v", c.Epoch, cuts[i], cuts[i+1], n, e)
			}
			ls, e := readAll(ch)
			ch.Close()
			if e != nil {
				return fmt.Errorf("Read in range [%d,%d): %v", cuts[i], cuts[i+1], e)
			}
			got = append(got, ls...)
		}
		if d := sameMultiset(multiset(got), wantSet); d != "" {
			return fmt.Errorf("epoch %d over the sub-ranges %v (%d lines): %s", c.Epoch, cuts, n, d)
		}
	}
	// (3) several chunks of the same Chunker open at once and read in turns (the tuner client's workers share one
	// Chunker and each holds its own open Chunk): the ranges partition [0,n), so together they still deliver
	// every line once. Turn lengths derive from the case's Seed; at most four chunks are open at a time.
	interleaved := 0
	if (len(c.Cuts) > 0 && c.Seed%2 == 0) || c.Seed%3 == 0 {
		cuts := []int{0, n}
		for _, x := range c.Cuts {
			cuts = append(cuts, x%(n+1))
		}
		for k := 1; k < 4 && len(c.Cuts) == 0; k++ {
			cuts = append(cuts, k*n/4)
		}
		sort.Ints(cuts)
		var rs [][2]int
		for i := 0; i+1 < len(cuts); i++ {
			if cuts[i] < cuts[i+1] {
				rs = append(rs, [2]int{cuts[i], cuts[i+1]})
			}
		}
		got = got[:0]
		for g := 0; g < len(rs); g += 4 {
			grp := rs[g:min(g+4, len(rs))]
			chs := make([]*Chunk, len(grp))
			for i, r := range grp {
				ch, e := ck.Open(int(c.Epoch), r[0], r[1])
				if e != nil {
					return fmt.Errorf("Open(%d, %d, %d) on %d lines with %d other chunks open: %v", c.Epoch, r[0], r[1], n, i, e)
				}
				chs[i] = ch
			}
			live, turn := len(chs), uint(c.Seed)
			done := make([]bool, len(chs))
			for live > 0 {
				for i, ch := range chs {
					if done[i] {
						continue
					}
					turn = turn*1103515245 + 12345
					for k := 1 + (turn>>16)%3; k > 0 && !done[i]; k-- {
						l, e := ch.Read()
						if e == io.EOF {
							done[i] = true
							live--
							ch.Close()
						} else if e != nil {
							return fmt.Errorf("Read in range [%d,%d) with %d chunks open: %v", grp[i][0], grp[i][1], live, e)
						} else {
							got = append(got, bytes.Clone(l))
						}
					}
				}
			}
			if len(grp) > 1 {
				interleaved++
			}
		}
		if d := sameMultiset(multiset(got), wantSet); d != "" {
			return fmt.Errorf("epoch %d over the ranges %v (%d lines) read in turns from chunks that are open at the same time: %s", c.Epoch, rs, n, d)
		}
	}
	if rec != nil {
		rec.Eval(1)
		if interleaved > 0 {
			rec.Class("chunks_open_at_once_read_in_turns")
		}
		blankMid, blankEnd, varLen := false, false, false
		for i, l := range c.Lines {
			if l == 0 {
				if i == len(c.Lines)-1 || allZero(c.Lines[i:]) {
					blankEnd = true
				} else {
					blankMid = true
				}
			}
			if i > 0 && l != c.Lines[0] && l != 0 {
				varLen = true
			}
		}
		if blankMid {
			rec.Class("blank_line_in_the_middle")
		}
		if blankEnd {
			rec.Class("blank_line_at_the_end")
		}
		if opens > 1 {
			rec.Class("several_chunks")
		}
		if len(data) > 32<<20 { // larger than the 32 MiB read buffer of the pinned implementation (label only)
			rec.Class("file_larger_than_read_buffer")
		}
		if n >= 3 && (varLen || c.BigLines > 0) {
			rec.NT(evid.H("file", c.Lines, c.Seed, c.Epoch, c.BigLines))
		}
	}
	return nil
}

func allZero(xs []int) bool {
	for _, x := range xs {
		if x != 0 {
			return false
		}
	}
	return true
}

func checkCase(c Case, rec *evid.Rec) error {
	switch c.Kind {
	case "shuffle":
		return shuffleCase(c.N, c.Epoch, make([]uint64, (c.N+63)/64+1))
	case "ranges":
		return rangesCase(c.N)
	case "file":
		return fileCase(c, rec)
	}
	return fmt.Errorf("unknown kind")
}

func TestC20(t *testing.T) {
	evid.Main(t, "C20", func(rec *evid.Rec) {
		rec.Rule("scratch copy of tools/tuner/{epd,tuning} built from the working tree (in-package access to shuffleIndex). Shuffle: EVERY n in 1..4096 (quick) / 1..16384 (thorough, plus 1..65536 for two epochs) x epochs {0..7, 2^63-1, 2^63, 2^63+1, 2^64-1} and seeded random 64 bit epochs: {shuffleIndex(i,n,e)} is a permutation of 0..n-1 (bitmap); sampled n around powers of two +-1 up to 2^22 (2^24 thorough). Ranges: Batches(n) partition [0,n) in order and Chunks(batch) partition each batch for the same n plus values around multiples of the batch and chunk sizes. End to end: generated files (line lengths 1..4000, blank lines in the middle and at the end, carriage returns, 1..30000 lines so that several chunks occur, one file larger than the 32 MiB read buffer) read through NewChunker + Open for all chunks of all batches and for arbitrary generated sub-ranges, read one after the other and also from up to four chunks of one Chunker held open at once and read in generated turns (as the client's workers do): multiset of delivered lines == multiset of non-blank lines, byte for byte; Rewind re-delivers. Non-trivial = n >= 3 not a power of two (shuffle), file with variable line lengths and >= 3 lines; distinct by (n, epoch) / file description")
		rec.Assume("files are in the documented format: newline-terminated lines shorter than the 4 KiB line-reader buffer")
		shard, nsh := evid.Shard()
		epochs := []uint64{0, 1, 2, 3, 4, 5, 6, 7, 1<<63 - 1, 1 << 63, 1<<63 + 1, 1<<64 - 1}
		x := evid.Seed()
		for i := 0; i < 4; i++ {
			x = x*6364136223846793005 + 1442695040888963407
			epochs = append(epochs, x)
		}
		maxN := evid.Pick(4096, 16384)
		seen := make([]uint64, (1<<24)/64+2)
		for n := 1; n <= maxN; n++ {
			if n%nsh != shard {
				continue
			}
			for _, e := range epochs {
				if err := shuffleCase(n, e, seen); err != nil {
					rec.Violate("shuffle", err.Error(), Case{Kind: "shuffle", N: n, Epoch: e})
					return
				}
				rec.Eval(1)
				if n >= 3 && n&(n-1) != 0 {
					rec.NT(evid.H("sh", n, e))
				}
			}
			if err := rangesCase(n); err != nil {
				rec.Violate("ranges", err.Error(), Case{Kind: "ranges", N: n})
				return
			}
		}
		if evid.Thorough() {
			for n := maxN + 1; n <= 65536; n++ {
				if n%nsh != shard {
					continue
				}
				for _, e := range []uint64{0, x} {
					if err := shuffleCase(n, e, seen); err != nil {
						rec.Violate("shuffle", err.Error(), Case{Kind: "shuffle", N: n, Epoch: e})
						return
					}
					rec.Eval(1)
					rec.NT(evid.H("sh", n, e))
				}
			}
		}
		rec.Exhaustive(fmt.Sprintf("shuffle permutation property for every n in 1..%d x %d epochs; batch/chunk partition for every n in 1..%d", maxN, len(epochs), maxN))
		// sampled sizes around powers of two and around the batch / chunk sizes
		var sizes []int
		for p := 13; p <= evid.Pick(22, 24); p++ {
			sizes = append(sizes, 1<<p-1, 1<<p, 1<<p+1)
		}
		for _, m := range []int{6250, 100000, 200000, 1000000} {
			sizes = append(sizes, m-1, m, m+1)
		}
		for i, n := range sizes {
			if i%nsh != shard {
				continue
			}
			for _, e := range []uint64{0, 7, x} {
				if n > 1<<22 && e != 0 {
					continue
				}
				if err := shuffleCase(n, e, seen); err != nil {
					rec.Violate("shuffle", err.Error(), Case{Kind: "shuffle", N: n, Epoch: e})
					return
				}
				rec.Eval(1)
				rec.NT(evid.H("sh", n, e))
				rec.Class("shuffle_large_n")
			}
			if err := rangesCase(n); err != nil {
				rec.Violate("ranges", err.Error(), Case{Kind: "ranges", N: n})
				return
			}
		}
		rec.Sample("shuffle", Case{Kind: "shuffle", N: 4095, Epoch: 1 << 63})
		// files
		rec.Rapid(t, "file", evid.Pick(4000, 60000), func(t *rapid.T) {
			c := Case{Kind: "file", Epoch: uint64(gen.Draw(t, 0, 1000, "epoch")), Seed: gen.Draw(t, 0, 1<<20, "seed")}
			if gen.Chance(t, 1, 8, "bigEpoch") {
				c.Epoch = uint64(gen.Draw(t, 0, 1<<30, "epochHi")) << 20
			}
			n := gen.Draw(t, 1, 40, "lines")
			switch gen.Draw(t, 0, 9, "sizeKind") {
			case 0:
				n = gen.Draw(t, 1, 3, "lines")
			case 1:
				n = gen.Draw(t, 6000, 30000, "lines")
			}
			short := n > 1000
			for i := 0; i < n; i++ {
				switch {
				case gen.Chance(t, 1, 12, "blank"):
					c.Lines = append(c.Lines, 0)
				case short:
					c.Lines = append(c.Lines, gen.Draw(t, 1, 12, "len"))
				case gen.Chance(t, 1, 10, "long"):
					c.Lines = append(c.Lines, gen.Draw(t, 3000, 4000, "len"))
				default:
					c.Lines = append(c.Lines, gen.Draw(t, 1, 120, "len"))
				}
			}
			for k := gen.Draw(t, 0, 4, "trailingBlank"); k > 2; k-- {
				c.Lines = append(c.Lines, 0)
			}
			for k := gen.Draw(t, 0, 5, "cuts"); k > 0; k-- {
				c.Cuts = append(c.Cuts, gen.Draw(t, 0, 1<<20, "cut"))
			}
			if rec.WantSample("file") && len(c.Lines) < 30 {
				rec.Sample("file", c)
			}
			if err := fileCase(c, rec); err != nil {
				rec.Fail("file", err.Error(), c)
				t.Fatalf("%v", err)
			}
		})
		// one file larger than the read buffer (lines straddle the refill boundary)
		if shard == 0 {
			c := Case{Kind: "file", Epoch: 3, Seed: int(evid.Seed()), BigLines: evid.Pick(12000, 30000), BigLen: 3900, Cuts: []int{100, 5000, 7777}}
			if err := fileCase(c, rec); err != nil {
				rec.Violate("file", err.Error(), c)
			}
			rec.Class("big_file")
		}
	}, func(check string, raw json.RawMessage) error {
		var c Case
		if err := json.Unmarshal(raw, &c); err != nil {
			return err
		}
		return checkCase(c, nil)
	})
}
