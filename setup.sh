#!/bin/sh
# MANIFEST.setup_cmd: offline build of the framework from files on disk only.
set -e
cd "$(dirname "$0")"
export GOFLAGS=-mod=mod GOPROXY=off
unset GOSUMDB GOTOOLCHAIN
mkdir -p .build evidence
cd harness
go version
# warm the build cache: oracle, generators, every check package (hooks on)
go build -tags verif ./...
go vet -tags verif ./refchess ./evid ./gen ./eng >/dev/null 2>&1 || true
go test -tags verif -count=1 ./refchess
go build -o ../.build/ntmerge ./cmd/ntmerge
for d in checks/*/; do
  go test -c -tags verif -o /dev/null "./$d" 
done
echo setup ok
