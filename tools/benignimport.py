#!/usr/bin/env python3
"""Import property-preserving ("benign") changes written by a sub-agent into /verif/benign/<id>/ and verify
each in a scratch worktree of /repo: the patch applies to HEAD, the tree builds and vets, the unedited suite passes.

  tools/benignimport.py <area> <outdir> <first-number>     e.g. tools/benignimport.py board /tmp/mut/out-bn-board 11

ids become B<nn>-<area>-<k>. meta.json lists every check in detect_with: none of them may raise an alarm
(tools/seedrun.py <id> --benign --isolated).
"""
import glob, json, os, re, shutil, subprocess, sys, time

VERIF = os.path.dirname(os.path.dirname(os.path.abspath(__file__)))
ENV = dict(os.environ, GOFLAGS="-mod=mod", GOPROXY="off")
ENV.pop("GOSUMDB", None)
ALL = [f"C{i:02d}" for i in range(1, 21)]


def sh(cmd, cwd, timeout=2400):
    p = subprocess.run(cmd, cwd=cwd, env=ENV, capture_output=True, text=True, shell=isinstance(cmd, str), timeout=timeout)
    return p.returncode, (p.stdout + p.stderr)[-3000:]


def tuner_build(wt):
    """tools/tuner packages that build offline, in a scratch module next to the worktree."""
    sc = wt + "-tuner"
    shutil.rmtree(sc, ignore_errors=True)
    os.makedirs(sc)
    for pkg in ("tuning", "epd", "checksum"):
        shutil.copytree(os.path.join(wt, "tools", "tuner", pkg), os.path.join(sc, pkg))
    open(os.path.join(sc, "go.mod"), "w").write(
        "module github.com/paulsonkoly/chess-3/tools/tuner\n\ngo 1.25.4\n\nrequire github.com/paulsonkoly/chess-3 v0.0.0\n\n"
        f"replace github.com/paulsonkoly/chess-3 => {wt}\n")
    shutil.copy(os.path.join(wt, "go.sum"), os.path.join(sc, "go.sum"))
    try:
        rc, o = sh("go build ./... && go vet ./... && go test -count=1 ./...", sc)
        return rc == 0, o
    finally:
        shutil.rmtree(sc, ignore_errors=True)


def main():
    area, out, n = sys.argv[1], sys.argv[2], int(sys.argv[3])
    for k, patch in enumerate(sorted(glob.glob(os.path.join(out, "B*.patch.diff")))):
        letter = os.path.basename(patch).split(".")[0]
        sid = f"B{n + k:02d}-{area}-{letter.lower()}"
        dst = os.path.join(VERIF, "benign", sid)
        os.makedirs(dst, exist_ok=True)
        shutil.copy(patch, os.path.join(dst, "patch.diff"))
        what = ""
        mt = os.path.join(out, f"{letter}.meta.txt")
        if os.path.exists(mt):
            shutil.copy(mt, os.path.join(dst, "agent_meta.txt"))
            what = " ".join(open(mt).read().split())[:400]
        wt = f"/tmp/sv/{sid}"
        shutil.rmtree(wt, ignore_errors=True)
        os.makedirs("/tmp/sv", exist_ok=True)
        sh(["git", "-C", "/repo", "worktree", "prune"], "/")
        sh(["git", "-C", "/repo", "worktree", "add", "-q", "--detach", wt, "HEAD"], "/")
        res = {}
        try:
            rc, o = sh(["git", "apply", "--whitespace=nowarn", os.path.join(dst, "patch.diff")], wt)
            res["applies"] = rc == 0
            if rc == 0:
                rc, o = sh("go build ./...", wt)
                res["builds"] = rc == 0
                if rc != 0:
                    res["build_output"] = o[-1500:]
                rc, o = sh("go build -tags verif ./...", wt)
                res["builds_with_hooks"] = rc == 0
                t0 = time.time()
                rc, o = sh("go test -vet=off -count=1 -timeout 25m ./...", wt)
                res["suite_passes"] = rc == 0
                res["suite_s"] = round(time.time() - t0)
                if rc != 0:
                    res["suite_output"] = o[-1500:]
                if "tools/tuner" in open(os.path.join(dst, "patch.diff")).read():
                    ok, o = tuner_build(wt)
                    res["tuner_packages_build_vet_test"] = ok
                    if not ok:
                        res["tuner_output"] = o[-1500:]
            else:
                res["error"] = o
        finally:
            sh(["git", "-C", "/repo", "worktree", "remove", "--force", wt], "/")
            shutil.rmtree(wt, ignore_errors=True)
        meta = {"id": sid, "kind": "benign change: the listed properties still hold, no check may raise an alarm",
                "author": f"sub-agent ({area} area), given the property texts and a scratch worktree only",
                "what": what, "detect_with": ALL, "verification": res}
        json.dump(meta, open(os.path.join(dst, "meta.json"), "w"), indent=1)
        print(sid, json.dumps({k: v for k, v in res.items() if not k.endswith("output")}))


if __name__ == "__main__":
    main()
