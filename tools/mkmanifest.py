#!/usr/bin/env python3
"""Regenerates /verif/MANIFEST.json from the table below (keeps it valid at all times)."""
import json, os, subprocess

VERIF = os.path.dirname(os.path.dirname(os.path.abspath(__file__)))
ALL = [f"C{i:02d}" for i in range(1, 21)]

# id -> (technique, level text, level note, design ref)
CHECKS = {
 "C01": ("rapid playouts + exhaustive 3-man table, set-equality differential against a reference rules implementation",
         "Generated-input search: legal-move SETS of the engine (generate, make, InCheck, undo) are compared with an independent mailbox/ray-walking implementation of the FIDE rules at every position of rapid-generated playouts from suite/bench/synthetic/motif roots (carried board and FEN-reloaded board), over the complete K+X v K table, and as perft(1..2) counts incl. the UCI perft command. Exploration, not proof: absence of a counterexample in the explored cases.",
         "Trusted: verif/refchess (self-tested against published perft numbers on every run), rapid v1.3.0, the Go toolchain. Domain: valid positions as listed, halfmove clock 0..100.",
         "DESIGN.md section 5 C01"),
}

PENDING_REASON = "check not built yet in this revision (work in progress; the technique applies, see DESIGN.md)"


def hook_commits():
    try:
        out = subprocess.run(["git", "-C", "/repo", "log", "--format=%H %s"], capture_output=True, text=True).stdout
        return [l.split()[0] for l in out.splitlines() if "verif hook" in l]
    except Exception:
        return []


def main():
    checks = []
    for pid in ALL:
        if pid not in CHECKS:
            continue
        tech, text, note, ref = CHECKS[pid]
        checks.append({
            "property_id": pid,
            "quick_cmd": f"./run {pid} --tier quick",
            "thorough_cmd": f"./run {pid} --tier thorough",
            "evidence_file": f"/verif/evidence/{pid}.json",
            "replay_cmd_template": f"./run {pid} --replay {{path}}",
            "engine": "rapid-harness",
            "level_claimed": {"category": "exploration", "text": text, "design_ref": ref},
            "level_note": note,
            "technique": tech,
        })
    m = {
        "version": 1,
        "setup_cmd": "./setup.sh",
        "hooks": {
            "guard": "verif",
            "enable": "go test -c -tags verif (harness module /verif/harness with `replace github.com/paulsonkoly/chess-3 => /repo`)",
            "baseline_off_cmd": "cd /repo && GOFLAGS=-mod=mod go test -json -vet=off -count=1 -timeout 25m ./...",
            "source_commits": hook_commits(),
            "add_only": True,
        },
        "engines": [{
            "name": "rapid-harness", "path": "/verif/harness",
            "serves_properties": sorted(CHECKS),
            "kind_free_text": "Go test binaries (pgregory.net/rapid v1.3.0 generators + exhaustive enumerators + native fuzz targets) built from /repo's working tree with -tags verif, sharded by ./run",
        }],
        "checks": checks,
        "notes": "Driver: ./run <ID> --tier quick|thorough [--replay F]; exit 0 held, 1 VIOLATION line, 2 infrastructure/inconclusive. VERIF_SEED selects the rapid seeds. Known findings: KNOWN_FINDINGS.txt.",
        "not_applicable": [{"property_id": p, "reason": PENDING_REASON} for p in ALL if p not in CHECKS],
    }
    with open(os.path.join(VERIF, "MANIFEST.json"), "w") as f:
        json.dump(m, f, indent=1)
        f.write("\n")


if __name__ == "__main__":
    main()
