#!/usr/bin/env python3
"""Regenerates /verif/MANIFEST.json from the table below (keeps it valid at all times)."""
import json, os, subprocess

VERIF = os.path.dirname(os.path.dirname(os.path.abspath(__file__)))
ALL = [f"C{i:02d}" for i in range(1, 21)]

# id -> (technique, level text, level note, design ref)
TRUST = "Trusted: the Go toolchain, rapid v1.3.0, the harness packages under /verif/harness (reference rules verif/refchess self-tested against published perft numbers on every run that uses it). Exploration only: absence of a counterexample among the generated / enumerated cases, reported with counts, class histogram and samples in the evidence file."

CHECKS = {
 "C01": ("rapid playouts + exhaustive 3-man table; set-equality differential against a reference rules implementation",
         "Legal-move SETS of the engine (generate, make, InCheck, undo) are compared with an independent mailbox/ray-walking implementation of the FIDE rules at every position of rapid-generated playouts from suite/bench/synthetic/motif roots (carried board and FEN-reloaded board with raw and normalised en-passant field), over the complete K+X v K table, and as perft(1..2) counts incl. the UCI perft command.",
         "Domain: valid positions as listed, halfmove clock 0..100.", "DESIGN.md section 5 C01"),
 "C02": ("rapid playouts; field-by-field differential of every successor against the reference rules, incl. en-passant capturability; UCI position/fen round trip incl. sessions of several position commands and whole games of 850+ plies in one command line",
         "At every position of generated playouts (roots incl. constructed en-passant parents: capturer pinned, horizontal pin, push discovering check through the origin square) EVERY legal move is made and the successor compared with the reference successor in placement, side, rights, en-passant target (iff a legal en-passant capture exists), both counters and FEN text; chains are kept; the same through `position ... moves ...` + `fen`.",
         "Oracle for en-passant capturability: reference legal-move generation.", "DESIGN.md section 5 C02"),
 "C03": ("rapid nested make/undo paths and exhaustive shallow trees; deep-snapshot round-trip invariant",
         "Deep snapshot (three placement encodings, rights, en-passant, counters, whole hash history) before make == after undo for every generated pseudo-legal move (legal or not) and the null move at every level of generated paths, complete depth 2-3 make/undo trees, and at every unwinding level of the path.",
         "Hook board.VerifSnapshot (build tag verif) copies all fields.", "DESIGN.md section 5 C03"),
 "C04": ("rapid histories with null moves; invariant incremental==from-scratch hash, representation consistency, metamorphic transposition pairs",
         "After every step of generated histories (legal and null moves) the incremental hash equals the from-scratch hash (hook) and the hash of the re-parsed FEN, the three placement encodings agree, recurrences of a reference-identical position carry the same hash; re-ordered 4-ply sequences that the reference says reach the same position must hash equally.",
         "Hook board.VerifCalcHash; position identity from the reference.", "DESIGN.md section 5 C04"),
 "C05": ("rapid positions x exhaustive 2^15 encodings; differential IsPseudoLegal vs generator membership; generated GUI move strings",
         "For generated positions ALL 32768 encodings are swept: IsPseudoLegal(m) iff the generator emits m. Generated move strings (well-formed, near misses, malformed) through `position fen F moves s` must leave the position unchanged or play exactly the generated move they name.",
         "The engine's generator is the reference here (C01 checks it against the rules).", "DESIGN.md section 5 C05"),
 "C06": ("rapid roots x limits x abort-point sweeps (every k as WithNodes(k)) x table sizes x stop-channel timings; oracle = reference legality + finality + snapshot equality; UCI go argument fuzzing after generated earlier position commands; table entries left under the root's own key (simulated signature collision)",
         "Searches on generated roots with history (incl. mates, stalemates, clock>=100, third occurrence, single reply) under depth / hard / soft node limits, every node count k in a range as abort point, five table sizes, stop channel closed before / inside an info line / by a timer, engine instances reused: returned move null or legal, null only on final roots, completed search on a final root returns (null, 0 | mated), board snapshot unchanged, follow-up search works; `go` with generated numeric arguments on the real driver, half of the sessions after earlier conforming position commands; a drawn entry (move of another position or any 15-bit encoding) stored under the root's key before a shallow or early-aborted search. Thorough adds the spsa build with drawn in-range parameters.",
         "Finality (no legal move, clock>=100, third occurrence) decided by the reference. Hook search.VerifTable.", "DESIGN.md section 5 C06"),
 "C07": ("rapid game fragments on carried-over tables; parsed info lines replayed on the reference rules",
         "Every info line of generated searches (fresh, game-warmed and 1024-bucket tables, via search.Go and via the UCI driver with Ponder on) must match the documented format; every pv replays legally from the root on the reference; depths strictly increase, nodes never decrease; returned move == first move of the last non-empty pv; ponder move legal after it.",
         "Line grammar taken from the format strings in search.go / uci.go.", "DESIGN.md section 5 C07"),
 "C08": ("rapid whole games on three engine instances, two of them concurrent under load (thorough: race detector); differential on results and info lines; soft-limit -> hard-budget replay",
         "Per game three engines whose tables carry over: A and A' get identical requests and run concurrently under machine load and must agree on score, move, ponder, nodes and all info lines (time masked); B replays each soft-limited search with WithNodes(N_A) and must agree on this and all later moves; node budgets never exceeded.",
         "SoftTime excluded (wall clock). Replay clause judged only when A returned a move.", "DESIGN.md section 5 C08"),
 "C09": ("exhaustive small-material tables + rapid boxed-king / en-passant constructions; differential against reference legal-move count",
         "IsCheckmate (asked only in check) and IsStalemate (only when not) are compared with 'reference has no legal move' over the complete 3-man tables, twelve 4-man classes (complete in thorough, 1/8 slices in quick) and generated dense / boxed-king / en-passant positions with engine-normalised en-passant field.",
         "Tables assembled field by field (no FEN reader on that path).", "DESIGN.md section 5 C09"),
 "C10": ("model-based stateful generation of game histories; invariant Threefold() == min(3, occurrences in a history list of reference identities); UCI leg",
         "Generated histories with recurrence-seeking actions (reverse, replay cycle, irreversible move, transient en-passant, lost rights): after every move Threefold() equals the count of the reference identity (placement, side, rights, en-passant capturability) in the history, capped at 3; the same games through `position ... moves` + `go depth 2` (bestmove 0000 iff game over). Start FENs with raw uncapturable en-passant target are a separate class with one recorded open finding.",
         "Known finding key start-fen-raw-ep listed in KNOWN_FINDINGS.txt.", "DESIGN.md sections 5 C10 and 6"),
 "C11": ("rapid round trips (position and text), UCI acceptance/rejection sessions, grammar mutation fuzzing; native go fuzz target in thorough; epd.Parse robustness in a scratch tuner module",
         "parse(print(b)) == b along playouts; print(parse(s)) == s and equals the reference reading for canonical FENs incl. heavy promoted material and both en-passant policies; `position fen s` + `fen` prints s and rejected commands leave the position in place; mutated / hostile / raw byte strings never panic and both entry points agree; thorough adds native coverage-guided fuzzing.",
         "Reference FEN reader/printer in verif/refchess.", "DESIGN.md section 5 C11"),
 "C12": ("exhaustive enumeration against a ray-walking / offset-list oracle",
         "All 64 squares x all subsets of the relevant occupancy (102400 rook + 5248 bishop) x outside fillings; all leaper squares; pawn sets; all 4096 InBetween pairs.",
         "Geometry oracle written in the harness.", "DESIGN.md section 5 C12"),
 "C13": ("schedule exploration: systematic command x phase sweep and rapid grammar-generated sessions against a controllable mock search and the real search, race detector on; transcript oracle; goroutine-leak and deadlock rules",
         "In-process driver on pipes: each go answered by exactly one bestmove after its info lines, readyok k never before isready k and totals equal, no torn line, Run returns after quit/EOF with no driver goroutine left, no panic, no race report. The harness owns WHEN commands arrive relative to the search (before start, after j info lines, coincident with the finish signal, after bestmove).",
         "Go scheduler interleavings inside the driver are sampled (repetition, GOMAXPROCS 1/2/4/16, race detector), not enumerated.", "DESIGN.md section 5 C13"),
 "C14": ("exhaustive boundary grid + rapid random clocks; inequality oracle; driver leg with recording / blocking mock search",
         "hard > 0, hard <= remaining, margin kept when more than the margin remains, movetime => soft == hard == movetime, opponent's clock irrelevant; the driver passes the computed soft time and the hard deadline fires within the remaining time (+2 s timer slack), also in sessions that have answered earlier go commands (move time, clocks, depth, nodes) on the same driver.",
         "Hook uci.VerifTimeLimits.", "DESIGN.md section 5 C14"),
 "C15": ("model-based stateful generation (store/probe/clear/resize/new-search) against a map model with free victim choice; direct lane-matcher differential",
         "After every store all modelled slots of the bucket are probed: hits equal the model (mate values re-based), at most one other slot vanished, the stored slot hits (keep-deeper refusal honoured), unmodelled non-zero signatures miss; zero signatures judged only by the clauses the property keeps.",
         "Hooks transp.VerifBucketIx / VerifMatch64.", "DESIGN.md section 5 C15"),
 "C16": ("rapid positions x hash-move candidates x trained/saturated rankers, nested picker use on the shared move store; exhaustive one-step history table",
         "Multiset of picker yields == set of generated moves, hash move first iff pseudo-legal, YieldedMoves == delivered prefix, also when pickers are nested as in the search; all ranker weights stay in their bands after generated FailHigh sequences; every stored value x every int16 bonus keeps |value| <= MaxHistory for the three stores.",
         "Generator as reference for the move set.", "DESIGN.md section 5 C16"),
 "C17": ("rapid positions; metamorphic relations (mirror, non-positional state, no hidden state, UCI eval)",
         "Eval(b) == Eval(mirror(b)); unchanged by rights / en-passant / fullmove / history / intervening evaluations / make+undo; UCI eval prints the same number.",
         "Mirror computed on reference positions.", "DESIGN.md section 5 C17"),
 "C18": ("rapid battery / dense positions x every legal move x threshold sets straddling every attainable balance; differential against a recursive exchange minimax with all tie-breaks",
         "SEE(b,m,t) == (v >= t) for one v of the reference's attainable balances, for all tested thresholds; monotone.",
         "Reference exchange minimax in the harness; piece values read from the engine.", "DESIGN.md section 5 C18"),
 "C19": ("rapid positions and coefficient-subset choices in a scratch build of the tuner packages; numeric differential with stated envelope; bijection checks with an independent reflective walker",
         "|float eval - int eval| < 2.25 (white relative) on generated positions loaded without hash; SetVector/ToVector/TunedParams/NullVector address the same coefficient at the same index for every drawn target subset; EngineCoeffs == eval.Coefficients.",
         "tuning/epd/checksum copied unchanged into a scratch module (other tuner deps unavailable offline).", "DESIGN.md section 5 C19"),
 "C20": ("exhaustive n-range permutation/partition checks + rapid generated files read end to end through the chunker",
         "shuffleIndex is a permutation for every n up to the stated bound and sampled large n, many epochs; Batches/Chunks partition; generated files (blank lines, long lines, >32 MiB) deliver every non-blank line exactly once over all chunks and over arbitrary sub-ranges, read one after the other and from up to four chunks of one Chunker open at once and read in generated turns.",
         "Files in the documented format (newline-terminated, lines < 4 KiB).", "DESIGN.md section 5 C20"),
}

PENDING_REASON = "check not built yet in this revision (work in progress; the technique applies, see DESIGN.md)"


def hook_commits():
    try:
        out = subprocess.run(["git", "-C", "/repo", "log", "--format=%H %s"], capture_output=True, text=True).stdout
        return [l.split()[0] for l in out.splitlines() if "verif hook" in l]
    except Exception:
        return []


def main():
    checks = []
    for pid in ALL:
        if pid not in CHECKS:
            continue
        tech, text, note, ref = CHECKS[pid]
        checks.append({
            "property_id": pid,
            "quick_cmd": f"./run {pid} --tier quick",
            "thorough_cmd": f"./run {pid} --tier thorough",
            "evidence_file": f"/verif/evidence/{pid}.json",
            "replay_cmd_template": f"./run {pid} --replay {{path}}",
            "engine": "rapid-harness",
            "level_claimed": {"category": "exploration", "text": text, "design_ref": ref},
            "level_note": note + " " + TRUST,
            "technique": tech,
        })
    m = {
        "version": 1,
        "setup_cmd": "./setup.sh",
        "hooks": {
            "guard": "verif",
            "enable": "go test -c -tags verif (harness module /verif/harness with `replace github.com/paulsonkoly/chess-3 => /repo`)",
            "baseline_off_cmd": "cd /repo && GOFLAGS=-mod=mod go test -json -vet=off -count=1 -timeout 25m ./...",
            "source_commits": hook_commits(),
            "add_only": True,
        },
        "engines": [{
            "name": "rapid-harness", "path": "/verif/harness",
            "serves_properties": sorted(CHECKS),
            "kind_free_text": "Go test binaries (pgregory.net/rapid v1.3.0 generators + exhaustive enumerators + native fuzz targets) built from /repo's working tree with -tags verif, sharded by ./run",
        }],
        "checks": checks,
        "notes": "Driver: ./run <ID> --tier quick|thorough [--replay F]; exit 0 held, 1 VIOLATION line, 2 infrastructure/inconclusive. VERIF_SEED selects the rapid seeds. Known findings: KNOWN_FINDINGS.txt.",
        "not_applicable": [{"property_id": p, "reason": PENDING_REASON} for p in ALL if p not in CHECKS],
    }
    with open(os.path.join(VERIF, "MANIFEST.json"), "w") as f:
        json.dump(m, f, indent=1)
        f.write("\n")


if __name__ == "__main__":
    main()
