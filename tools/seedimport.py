#!/usr/bin/env python3
"""Import a sub-agent's mutant (patch + demonstration) into /verif/seeded/<id>/ and verify it independently
in a scratch worktree of /repo: the patch applies to HEAD, the tree builds, the unedited suite passes,
the demonstration fails with the patch and passes without it. The worktree is removed afterwards.

  tools/seedimport.py <property> <letter> <outdir>       e.g. tools/seedimport.py C02 A /tmp/mut/out-c02
"""
import json, os, re, shutil, subprocess, sys, glob, time

VERIF = os.path.dirname(os.path.dirname(os.path.abspath(__file__)))
ENV = dict(os.environ, GOFLAGS="-mod=mod", GOPROXY="off")
ENV.pop("GOSUMDB", None)


def sh(cmd, cwd, timeout=1800):
    p = subprocess.run(cmd, cwd=cwd, env=ENV, capture_output=True, text=True, shell=isinstance(cmd, str), timeout=timeout)
    return p.returncode, (p.stdout + p.stderr)[-3000:]


def main():
    prop, letter, out = sys.argv[1], sys.argv[2], sys.argv[3]
    prefix = sys.argv[4] if len(sys.argv) > 4 else ""
    sid = f"{prop}-{prefix}{letter}"
    dst = os.path.join(VERIF, "seeded", sid)
    os.makedirs(dst, exist_ok=True)
    shutil.copy(os.path.join(out, f"{letter}.patch.diff"), os.path.join(dst, "patch.diff"))
    demos = glob.glob(os.path.join(out, f"{letter}.demo*"))
    demo = demos[0]
    demo_name = "demo_test.go" if demo.endswith("_test.go") else "demo.go"
    shutil.copy(demo, os.path.join(dst, demo_name))
    if os.path.exists(os.path.join(out, f"{letter}.meta.txt")):
        shutil.copy(os.path.join(out, f"{letter}.meta.txt"), os.path.join(dst, "agent_meta.txt"))
    head = open(demo).read(600)
    tuner = re.search(r"tools/tuner/(tuning|epd|checksum)", head)
    m = re.search(r"(?:/tmp/mut/c\d+/)?\b(board|uci|search|movegen|heur|picker|transp|eval|attacks|debug|move|chess|params|stack)/", head)
    pkg = m.group(1) if m else None
    if tuner:
        pkg = tuner.group(1)
    pl = re.search(r"Place in:\s*(\S+?)/?\s", head)  # an explicit placement line wins over a path mentioned elsewhere
    if pl:
        d = pl.group(1).strip("/")
        if d.startswith("tools/tuner/"):
            pkg, tuner = d.split("/")[-1], True
        else:
            pkg, tuner = d, None
    r = re.search(r"-run\s+'?\"?([A-Za-z0-9_|]+)", head)
    runpat = r.group(1) if r else "Demo"
    wt = f"/tmp/sv/{sid}"
    shutil.rmtree(wt, ignore_errors=True)
    os.makedirs("/tmp/sv", exist_ok=True)
    import fcntl
    os.makedirs("/tmp/seedrun", exist_ok=True)
    with open("/tmp/seedrun/.lock", "w") as lk:  # shared with seedrun.py: prune + add are not safe concurrently
        fcntl.flock(lk, fcntl.LOCK_EX)
        sh(["git", "-C", "/repo", "worktree", "prune"], "/")
        rc, o = sh(["git", "-C", "/repo", "worktree", "add", "-q", "--detach", wt, "HEAD"], "/")
    res = {"id": sid, "property": prop, "demo_pkg": pkg, "demo_run": runpat}
    try:
        rc, o = sh(["git", "apply", "--whitespace=nowarn", os.path.join(dst, "patch.diff")], wt)
        res["applies"] = rc == 0
        if rc != 0:
            res["error"] = o
            return res
        rc, o = sh("go build ./...", wt)
        res["builds"] = rc == 0
        t0 = time.time()
        rc, o = sh("go test -vet=off -count=1 -timeout 25m ./...", wt, timeout=2400)
        res["suite_passes_with_patch"] = rc == 0
        res["suite_s"] = round(time.time() - t0)
        if rc != 0:
            res["suite_output"] = o[-1500:]
        if tuner and demo_name.endswith("_test.go"):
            scratch = wt + "-scratch"

            def sync():
                shutil.rmtree(scratch, ignore_errors=True)
                os.makedirs(scratch)
                for d in ("tuning", "epd", "checksum"):
                    shutil.copytree(os.path.join(wt, "tools", "tuner", d), os.path.join(scratch, d))
                open(os.path.join(scratch, "go.mod"), "w").write(
                    "module github.com/paulsonkoly/chess-3/tools/tuner\n\ngo 1.25.4\n\nrequire github.com/paulsonkoly/chess-3 v0.0.0\n\n"
                    f"replace github.com/paulsonkoly/chess-3 => {wt}\n")
                shutil.copy(os.path.join(wt, "go.sum"), os.path.join(scratch, "go.sum"))
                shutil.copy(demo, os.path.join(scratch, pkg, "zz_seed_demo_test.go"))
            sync()
            rc, o = sh(f"go test -vet=off -count=1 -run '{runpat}' ./{pkg}/", scratch)
            res["demo_fails_with_patch"] = rc != 0 and "FAIL" in o
            if not res["demo_fails_with_patch"]:
                res["demo_with_patch_output"] = o[-800:]
            sh(["git", "checkout", "--", "."], wt)
            sync()
            rc, o = sh(f"go test -vet=off -count=1 -run '{runpat}' ./{pkg}/", scratch)
            res["demo_passes_without_patch"] = rc == 0
            if rc != 0:
                res["demo_without_patch_output"] = o[-800:]
            shutil.rmtree(scratch, ignore_errors=True)
        elif pkg and demo_name.endswith("_test.go"):
            shutil.copy(demo, os.path.join(wt, pkg, "zz_seed_demo_test.go"))
            rc, o = sh(f"go test -vet=off -count=1 -run '{runpat}' ./{pkg}/", wt)
            res["demo_fails_with_patch"] = rc != 0 and "FAIL" in o
            if not res["demo_fails_with_patch"]:
                res["demo_with_patch_output"] = o[-800:]
            sh(["git", "checkout", "--", "."], wt)
            rc, o = sh(f"go test -vet=off -count=1 -run '{runpat}' ./{pkg}/", wt)
            res["demo_passes_without_patch"] = rc == 0
            if rc != 0:
                res["demo_without_patch_output"] = o[-800:]
        else:
            res["demo_note"] = "demonstration is not a package test; not run automatically"
    finally:
        with open("/tmp/seedrun/.lock", "w") as lk:
            fcntl.flock(lk, fcntl.LOCK_EX)
            sh(["git", "-C", "/repo", "worktree", "remove", "--force", wt], "/")
        shutil.rmtree(wt, ignore_errors=True)
        res["verified"] = bool(res.get("applies") and res.get("builds") and res.get("suite_passes_with_patch")
                               and res.get("demo_fails_with_patch") and res.get("demo_passes_without_patch"))
        meta_path = os.path.join(dst, "meta.json")
        meta = {}
        if os.path.exists(meta_path):
            meta = json.load(open(meta_path))
        meta.update({"id": sid, "property": prop, "detect_with": meta.get("detect_with") or [prop],
                     "origin": "independent sub-agent given only the property text and a scratch worktree",
                     "independent_verification": res,
                     "verification_cmds": ["git worktree add /tmp/sv/<id> HEAD; git apply patch.diff; go build ./...; go test -vet=off -count=1 ./...",
                                           f"go test -run '{runpat}' ./{pkg}/ (with patch: must fail; after git checkout -- .: must pass)"]})
        if os.path.exists(os.path.join(dst, "agent_meta.txt")):
            meta["needs"] = open(os.path.join(dst, "agent_meta.txt")).read()[:1500]
        json.dump(meta, open(meta_path, "w"), indent=1)
        print(json.dumps({k: v for k, v in res.items() if "output" not in k}))
    return res


if __name__ == "__main__":
    main()
