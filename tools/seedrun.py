#!/usr/bin/env python3
"""Apply a seeded change to /repo, run the named checks, undo the change.

  tools/seedrun.py <seed-id> [--tier quick] [--props C01,C05] [--seed N]

Reads /verif/seeded/<seed-id>/patch.diff and meta.json ("property": main property, "detect_with": list of checks).
Never commits anything in /repo; always restores the tree (git checkout -- . and removal of files the patch added).
"""
import argparse, json, os, subprocess, sys, time

VERIF = os.path.dirname(os.path.dirname(os.path.abspath(__file__)))
REPO = "/repo"


def sh(*a, **k):
    return subprocess.run(a, capture_output=True, text=True, **k)


def main():
    ap = argparse.ArgumentParser()
    ap.add_argument("sid")
    ap.add_argument("--tier", default="quick")
    ap.add_argument("--props")
    ap.add_argument("--seed", default="1")
    a = ap.parse_args()
    d = os.path.join(VERIF, "seeded", a.sid)
    meta = {}
    if os.path.exists(os.path.join(d, "meta.json")):
        meta = json.load(open(os.path.join(d, "meta.json")))
    props = a.props.split(",") if a.props else meta.get("detect_with") or [meta.get("property")]
    if sh("git", "-C", REPO, "status", "--porcelain").stdout.strip():
        print("refusing: /repo is not clean")
        sys.exit(2)
    patch = os.path.join(d, "patch.diff")
    r = sh("git", "-C", REPO, "apply", "--whitespace=nowarn", patch)
    if r.returncode != 0:
        print("patch does not apply:", r.stderr)
        sys.exit(2)
    results = {}
    try:
        for p in props:
            t0 = time.time()
            env = dict(os.environ, VERIF_SEED=a.seed)
            r = sh(os.path.join(VERIF, "run"), p, "--tier", a.tier, env=env)
            first = next((l for l in r.stdout.splitlines() if l.startswith(("VIOLATION", "OK", "INFRA"))), r.stdout[:200])
            detail = next((l for l in r.stdout.splitlines() if l.startswith("  check=")), "")
            results[p] = {"exit": r.returncode, "wall_s": round(time.time() - t0, 1), "line": first, "detail": detail[:400]}
            print(f"{a.sid} {p} exit={r.returncode} {time.time()-t0:.1f}s {first}\n   {detail[:300]}")
    finally:
        sh("git", "-C", REPO, "checkout", "--", ".")
        sh("git", "-C", REPO, "clean", "-fdq")
        left = sh("git", "-C", REPO, "status", "--porcelain").stdout.strip()
        if left:
            print("WARNING /repo not clean after restore:", left)
    out = {"seed": a.sid, "tier": a.tier, "verif_seed": a.seed, "results": results,
           "detected": any(v["exit"] == 1 for v in results.values())}
    with open(os.path.join(d, f"result.{a.tier}.json"), "w") as f:
        json.dump(out, f, indent=1)
    sys.exit(0 if out["detected"] else 1)


if __name__ == "__main__":
    main()
