#!/usr/bin/env python3
"""Apply a seeded change to /repo, run the named checks, undo the change.

  tools/seedrun.py <seed-id> [--tier quick] [--props C01,C05] [--seed N]

Reads /verif/seeded/<seed-id>/patch.diff and meta.json ("property": main property, "detect_with": list of checks).
Never commits anything in /repo; always restores the tree (git checkout -- . and removal of files the patch added).
"""
import argparse, json, os, subprocess, sys, time

VERIF = os.path.dirname(os.path.dirname(os.path.abspath(__file__)))
REPO = "/repo"


def sh(*a, **k):
    return subprocess.run(a, capture_output=True, text=True, **k)


def isolated(a, d, meta, props, patch):
    """Same as the normal flow, but on a scratch worktree of /repo HEAD and a copy of the harness whose
    replace directive points at it; evidence and replays go to the scratch directory. /repo is not touched."""
    import shutil, re
    base = f"/tmp/seedrun/{a.sid}"
    shutil.rmtree(base, ignore_errors=True)
    os.makedirs(base)
    wt = os.path.join(base, "repo")
    import fcntl
    with open("/tmp/seedrun/.lock", "w") as lk:  # worktree bookkeeping is not safe against concurrent prune + add
        fcntl.flock(lk, fcntl.LOCK_EX)
        sh("git", "-C", REPO, "worktree", "prune")
        r = sh("git", "-C", REPO, "worktree", "add", "-q", "--detach", wt, "HEAD")
    results = {}
    try:
        r = sh("git", "-C", wt, "apply", "--whitespace=nowarn", patch)
        if r.returncode != 0:
            print("patch does not apply:", r.stderr)
            sys.exit(2)
        h = os.path.join(base, "harness")
        shutil.copytree(os.path.join(VERIF, "harness"), h)
        gm = open(os.path.join(h, "go.mod")).read()
        open(os.path.join(h, "go.mod"), "w").write(re.sub(r"=> /repo\b", f"=> {wt}", gm))
        env = dict(os.environ, VERIF_SEED=a.seed, VERIF_REPO=wt, VERIF_HARNESS=h, VERIF_BUILD=os.path.join(base, "build"),
                   VERIF_EVIDENCE_DIR=os.path.join(base, "evidence"), VERIF_REPLAY_DIR=os.path.join(base, "replays"))
        for p in props:
            t0 = time.time()
            r = sh(os.path.join(VERIF, "run"), p, "--tier", a.tier, env=env)
            first = next((l for l in r.stdout.splitlines() if l.startswith(("VIOLATION", "OK", "INFRA"))), r.stdout[:200])
            detail = next((l for l in r.stdout.splitlines() if l.startswith("  check=")), "")
            results[p] = {"exit": r.returncode, "wall_s": round(time.time() - t0, 1), "line": first, "detail": detail[:400]}
            print(f"{a.sid} {p} exit={r.returncode} {time.time()-t0:.1f}s {first}\n   {detail[:300]}")
    finally:
        with open("/tmp/seedrun/.lock", "w") as lk:
            fcntl.flock(lk, fcntl.LOCK_EX)
            sh("git", "-C", REPO, "worktree", "remove", "--force", wt)
        shutil.rmtree(base, ignore_errors=True)
    out = {"seed": a.sid, "tier": a.tier, "verif_seed": a.seed, "isolated": True, "results": results,
           "detected": any(v["exit"] == 1 for v in results.values())}
    rf = os.path.join(d, f"result.{a.tier}.json")
    if a.props and os.path.exists(rf):  # a partial run refreshes the entries of the checks it ran
        try:
            merged = json.load(open(rf)).get("results", {})
            merged.update(results)
            out["results"] = results = dict(sorted(merged.items()))
            out["detected"] = any(v["exit"] == 1 for v in results.values())
        except ValueError:
            pass
    if a.benign:
        out["silent"] = all(v["exit"] == 0 for v in results.values())
    with open(os.path.join(d, f"result.{a.tier}.json"), "w") as f:
        json.dump(out, f, indent=1)
    if a.benign:
        sys.exit(0 if out["silent"] else 1)
    sys.exit(0 if out["detected"] else 1)


def main():
    ap = argparse.ArgumentParser()
    ap.add_argument("sid")
    ap.add_argument("--tier", default="quick")
    ap.add_argument("--props")
    ap.add_argument("--seed", default="1")
    ap.add_argument("--isolated", action="store_true", help="use a scratch worktree and harness copy instead of /repo")
    ap.add_argument("--benign", action="store_true", help="the change is taken from /verif/benign/<id>: no check may raise an alarm")
    a = ap.parse_args()
    d = os.path.join(VERIF, "benign" if a.benign else "seeded", a.sid)
    meta = {}
    if os.path.exists(os.path.join(d, "meta.json")):
        meta = json.load(open(os.path.join(d, "meta.json")))
    props = a.props.split(",") if a.props else meta.get("detect_with") or [meta.get("property")]
    patch = os.path.join(d, "patch.diff")
    if a.isolated:
        return isolated(a, d, meta, props, patch)
    if sh("git", "-C", REPO, "status", "--porcelain").stdout.strip():
        print("refusing: /repo is not clean")
        sys.exit(2)
    r = sh("git", "-C", REPO, "apply", "--whitespace=nowarn", patch)
    if r.returncode != 0:
        print("patch does not apply:", r.stderr)
        sys.exit(2)
    results = {}
    try:
        for p in props:
            t0 = time.time()
            env = dict(os.environ, VERIF_SEED=a.seed)
            r = sh(os.path.join(VERIF, "run"), p, "--tier", a.tier, env=env)
            first = next((l for l in r.stdout.splitlines() if l.startswith(("VIOLATION", "OK", "INFRA"))), r.stdout[:200])
            detail = next((l for l in r.stdout.splitlines() if l.startswith("  check=")), "")
            results[p] = {"exit": r.returncode, "wall_s": round(time.time() - t0, 1), "line": first, "detail": detail[:400]}
            print(f"{a.sid} {p} exit={r.returncode} {time.time()-t0:.1f}s {first}\n   {detail[:300]}")
    finally:
        sh("git", "-C", REPO, "checkout", "--", ".")
        sh("git", "-C", REPO, "clean", "-fdq")
        left = sh("git", "-C", REPO, "status", "--porcelain").stdout.strip()
        if left:
            print("WARNING /repo not clean after restore:", left)
    out = {"seed": a.sid, "tier": a.tier, "verif_seed": a.seed, "results": results,
           "detected": any(v["exit"] == 1 for v in results.values())}
    with open(os.path.join(d, f"result.{a.tier}.json"), "w") as f:
        json.dump(out, f, indent=1)
    sys.exit(0 if out["detected"] else 1)


if __name__ == "__main__":
    main()
